"""C16 - saving to JSON and loading restores everything that was saved, at any stage (history property)."""
import datetime
import inspect
import json

from hypothesis import strategies as st

from .. import gen
from .. import spec as S
from ..core import HarnessError, Result

PID = "C16"
LEVEL = "exploration"
RULE = (
    "Model-based history testing: Hypothesis generates a model (profiles W/F/N, some tasks as BaseSubProjectTask, "
    "numeric edge values 0, 0.0, -1, empty lists, non-default per-task rules, main workplaces, conveyor links) and "
    "a history of simulate / pause (max_time=k) / backward_simulate / save_load operations (save_load replaces the "
    "project by the reloaded one, read into a new BaseProject or into a project object on which another model has "
    "already been simulated; every history ends with one). Oracle at every save_load: (1) writing never raises; "
    "(2) JSON(file) == JSON(write(read(file))) value-for-value; (3) every cross reference of the restored project is "
    "(by identity) an object of the restored project; (4) every attribute of the curated table of "
    "simulation-relevant constructor parameters (derived with inspect.signature; an unknown new parameter is a "
    "harness error, exit 2) has the same normalised value in the restored project as in the original; (5) the "
    "restored project re-simulates to the same dump as a fresh build. extra(): the parameter table is also "
    "enumerated exhaustively on a 'kitchen sink' model in which every parameter has a non-default value, at four "
    'A dense profile saves paused runs in which several worker-facility pairs work on one task; teams and workplaces may have parent links; IDs may be shared across kinds. '
    "life stages. Non-trivial = a round trip at a paused or backward-finished stage, or with a sub-project task; "
    "distinct by case hash."
)
ASSUMPTIONS = [
    "excluded constructor parameters: back-pointers parent_workflow / parent_product (re-derived), and the 'advanced' "
    "quality/error parameters (additional_work_amount, additional_task_flag, actual_work_amount, error_tolerance, error, "
    "quality_skill_mean_map, quality_skill_sd_map) that influence no log",
    "plain pDESy classes only (the saved format stores class names)",
]
TECHNIQUE = "model-based property testing with Hypothesis: JSON round-trip, attribute-level restoration and re-simulation differential; exhaustive constructor-parameter table"
LEVEL_TEXT = (
    "Generated models and life-cycle histories with round-trip, reference-resolution, attribute-restoration and "
    "re-simulation oracles, plus an exhaustive walk over the constructor-parameter table; not a proof."
)
LEVEL_NOTE = "The curated parameter table is checked against inspect.signature at start-up, so a new parameter cannot pass silently."

# ---------------------------------------------------------------------------------------------
# curated table: class -> saved constructor parameters (attribute has the same name)
# ---------------------------------------------------------------------------------------------
TASK_PARAMS = [
    "name", "ID", "default_work_amount", "work_amount_progress_of_unit_step_time", "input_task_list",
    "output_task_list", "allocated_team_list", "allocated_workplace_list", "workplace_priority_rule",
    "worker_priority_rule", "facility_priority_rule", "need_facility", "target_component", "default_progress",
    "due_time", "auto_task", "fixing_allocating_worker_id_list", "fixing_allocating_facility_id_list", "est", "eft",
    "lst", "lft", "remaining_work_amount", "remaining_work_amount_record_list", "state", "state_record_list",
    "allocated_worker_list", "allocated_worker_id_record", "allocated_facility_list", "allocated_facility_id_record",
]
TABLE = {
    "BaseTask": (S.BaseTask, TASK_PARAMS, ["parent_workflow", "additional_work_amount", "additional_task_flag", "actual_work_amount"]),
    "BaseSubProjectTask": (
        S.BaseSubProjectTask,
        TASK_PARAMS + ["file_path", "unit_timedelta", "read_json_file", "remove_absence_time_list"],
        ["parent_workflow", "additional_work_amount", "additional_task_flag", "actual_work_amount"],
    ),
    "BaseComponent": (
        S.BaseComponent,
        ["name", "ID", "parent_component_list", "child_component_list", "targeted_task_list", "space_size", "state",
         "state_record_list", "placed_workplace", "placed_workplace_id_record"],
        ["parent_product", "error_tolerance", "error"],
    ),
    "BaseWorker": (
        S.BaseWorker,
        ["name", "ID", "team_id", "main_workplace_id", "cost_per_time", "solo_working", "workamount_skill_mean_map",
         "workamount_skill_sd_map", "facility_skill_map", "absence_time_list", "state", "state_record_list", "cost_list",
         "assigned_task_list", "assigned_task_id_record"],
        ["quality_skill_mean_map", "quality_skill_sd_map"],
    ),
    "BaseFacility": (
        S.BaseFacility,
        ["name", "ID", "workplace_id", "cost_per_time", "solo_working", "workamount_skill_mean_map",
         "workamount_skill_sd_map", "absence_time_list", "state", "state_record_list", "cost_list", "assigned_task_list",
         "assigned_task_id_record"],
        [],
    ),
    "BaseTeam": (S.BaseTeam, ["name", "ID", "worker_list", "targeted_task_list", "parent_team", "cost_list"], []),
    "BaseWorkplace": (
        S.BaseWorkplace,
        ["name", "ID", "facility_list", "targeted_task_list", "parent_workplace", "max_space_size", "input_workplace_list",
         "output_workplace_list", "cost_list", "placed_component_list", "placed_component_id_record"],
        [],
    ),
    "BaseWorkflow": (S.BaseWorkflow, ["task_list", "critical_path_length"], []),
    "BaseProduct": (S.BaseProduct, ["component_list"], []),
    "BaseOrganization": (S.BaseOrganization, ["team_list", "workplace_list", "cost_list"], []),
    "BaseProject": (
        S.BaseProject,
        ["init_datetime", "unit_timedelta", "absence_time_list", "perform_auto_task_while_absence_time", "product",
         "organization", "workflow", "time", "cost_list", "simulation_mode", "status"],
        [],
    ),
}


def verify_table():
    for cname, (cls, params, excluded) in TABLE.items():
        sig = [p for p in inspect.signature(cls.__init__).parameters if p != "self"]
        unknown = [p for p in sig if p not in params and p not in excluded]
        gone = [p for p in params + excluded if p not in sig]
        if unknown or gone:
            raise HarnessError(
                "constructor of %s changed: parameters not in the curated table %s, table entries that no longer exist %s"
                % (cname, unknown, gone)
            )


def norm(v):
    """normalise an attribute value: objects -> IDs, enums -> ints, dates -> text."""
    if isinstance(v, (list, tuple)):
        return [norm(x) for x in v]
    if isinstance(v, dict):
        return {str(k): norm(x) for k, x in sorted(v.items(), key=lambda kv: str(kv[0]))}
    if isinstance(v, bool) or v is None or isinstance(v, str):
        return v
    if isinstance(v, datetime.timedelta):
        return ["td", v.total_seconds()]
    if isinstance(v, datetime.datetime):
        return ["dt", v.strftime("%Y-%m-%d %H:%M:%S")]
    if hasattr(v, "ID") and not isinstance(v, (int, float)):
        return ["ref", v.ID]
    if isinstance(v, (S.BaseWorkflow, S.BaseProduct, S.BaseOrganization)):
        return ["container", type(v).__name__]
    if isinstance(v, int):
        return int(v)
    if isinstance(v, float):
        return float(v)
    return repr(v)


def objects_of(project):
    """[(class name, key, object)] of a project."""
    out = [("BaseProject", "project", project), ("BaseWorkflow", "workflow", project.workflow),
           ("BaseProduct", "product", project.product), ("BaseOrganization", "organization", project.organization)]
    for t in project.workflow.task_list:
        out.append((type(t).__name__, t.ID, t))
    for c in project.product.component_list:
        out.append(("BaseComponent", c.ID, c))
    for tm in project.organization.team_list:
        out.append(("BaseTeam", tm.ID, tm))
        for w in tm.worker_list:
            out.append(("BaseWorker", w.ID, w))
    for wp in project.organization.workplace_list:
        out.append(("BaseWorkplace", wp.ID, wp))
        for f in wp.facility_list:
            out.append(("BaseFacility", f.ID, f))
    return out


def check_attributes(orig, restored, res, where):
    ro = {(c, k): o for c, k, o in objects_of(restored)}
    for cname, key, o in objects_of(orig):
        if cname not in TABLE:
            continue
        r = ro.get((cname, key))
        if r is None:
            res.fail("C16.object_lost", "%s: %s %s is missing after loading" % (where, cname, key), sig=cname)
            continue
        for attr in TABLE[cname][1]:
            if not hasattr(o, attr):
                res.fail("C16.attribute_missing", "%s: original %s %s has no attribute %s" % (where, cname, key, attr), sig=cname + "." + attr)
                continue
            a = norm(getattr(o, attr))
            b = norm(getattr(r, attr, "<missing>"))
            if a != b:
                res.fail(
                    "C16.attribute",
                    "%s: %s %s attribute %s is %r before saving and %r after loading" % (where, cname, key, attr, a, b),
                    sig=cname + "." + attr,
                )


def check_references(p, res, where):
    tasks = p.workflow.task_list
    comps = p.product.component_list
    teams = p.organization.team_list
    wps = p.organization.workplace_list
    workers = [w for tm in teams for w in tm.worker_list]
    facs = [f for wp in wps for f in wp.facility_list]

    def inside(x, coll):
        return any(x is y for y in coll)

    def chk(owner, attr, items, coll):
        for x in items:
            if not inside(x, coll):
                res.fail("C16.reference", "%s: %s.%s holds %r which is not an object of the restored project" % (where, owner, attr, x if isinstance(x, (str, int)) else type(x).__name__), sig=attr)

    for t in tasks:
        chk(t.ID, "input_task_list", [x[0] for x in t.input_task_list], tasks)
        chk(t.ID, "output_task_list", [x[0] for x in t.output_task_list], tasks)
        chk(t.ID, "allocated_team_list", t.allocated_team_list, teams)
        chk(t.ID, "allocated_workplace_list", t.allocated_workplace_list, wps)
        chk(t.ID, "allocated_worker_list", t.allocated_worker_list, workers)
        chk(t.ID, "allocated_facility_list", t.allocated_facility_list, facs)
        if t.target_component is not None:
            chk(t.ID, "target_component", [t.target_component], comps)
        for x in t.input_task_list + t.output_task_list:
            if not isinstance(x[1], S.BaseTaskDependency):
                res.fail("C16.reference", "%s: dependency kind of %s is %r" % (where, t.ID, x[1]), sig="dependency_kind")
    for c in comps:
        chk(c.ID, "parent_component_list", c.parent_component_list, comps)
        chk(c.ID, "child_component_list", c.child_component_list, comps)
        chk(c.ID, "targeted_task_list", c.targeted_task_list, tasks)
        if c.placed_workplace is not None:
            chk(c.ID, "placed_workplace", [c.placed_workplace], wps)
    for tm in teams:
        chk(tm.ID, "targeted_task_list", tm.targeted_task_list, tasks)
        if tm.parent_team is not None:
            chk(tm.ID, "parent_team", [tm.parent_team], teams)
        for w in tm.worker_list:
            chk(w.ID, "assigned_task_list", w.assigned_task_list, tasks)
    for wp in wps:
        chk(wp.ID, "targeted_task_list", wp.targeted_task_list, tasks)
        chk(wp.ID, "placed_component_list", wp.placed_component_list, comps)
        chk(wp.ID, "input_workplace_list", wp.input_workplace_list, wps)
        chk(wp.ID, "output_workplace_list", wp.output_workplace_list, wps)
        if wp.parent_workplace is not None:
            chk(wp.ID, "parent_workplace", [wp.parent_workplace], wps)
        for f in wp.facility_list:
            chk(f.ID, "assigned_task_list", f.assigned_task_list, tasks)


def save_load(p, res, where, name="c16.json", into=None):
    path = S.tmp_path(name)
    try:
        p.write_simple_json(path)
    except Exception as e:  # noqa: BLE001
        res.fail("C16.write_raises", "%s: write_simple_json raised %s: %s" % (where, type(e).__name__, e), sig=type(e).__name__)
        return None
    try:
        with open(path) as f:
            j1 = json.load(f)
    except ValueError as e:
        res.fail("C16.file_not_json", "%s: the file written by write_simple_json is not valid JSON: %s" % (where, e), sig="first")
        return None
    p2 = S.BaseProject()
    if into is not None:
        p2 = into  # read into a project object that has already been used
    try:
        p2.read_simple_json(path)
    except Exception as e:  # noqa: BLE001
        res.fail("C16.read_raises", "%s: read_simple_json raised %s: %s" % (where, type(e).__name__, e), sig=type(e).__name__)
        return None
    path2 = S.tmp_path("b_" + name)
    try:
        p2.write_simple_json(path2)
    except Exception as e:  # noqa: BLE001
        res.fail("C16.rewrite_raises", "%s: writing the restored project raised %s: %s" % (where, type(e).__name__, e), sig=type(e).__name__)
        return p2
    try:
        with open(path2) as f:
            j2 = json.load(f)
    except ValueError as e:
        res.fail("C16.file_not_json", "%s: the file written from the restored project is not valid JSON: %s" % (where, e), sig="second")
        return p2
    if j1 != j2:
        diffs = S.diff_dumps(j1, j2)
        res.fail("C16.roundtrip", "%s: JSON(file) != JSON(write(read(file))): %s" % (where, "; ".join(diffs[:3])), sig=diffs[0].split(":")[0].split("/")[-1].split("[")[0] if diffs else "")
    check_references(p2, res, where)
    check_attributes(p, p2, res, where)
    return p2


CFG = gen.Cfg(onesided=2, servable=2, facilities=True, max_tasks=6, max_time=[40], abs_max=12, chain_components=True, due=True, org_tree=2, ids_flat=4, float_mode=5,
              work_pool=[0.0, 0.5, 1.0, 1.0, 2.0, 3.0])
# nested products only without workplaces here: backward_simulate reverses the dependencies, which turns the
# assembly form around (parent tasks first) and leads into the nested-placement findings D-PLC2..4 of C13
CFG_N = CFG.copy(nested="free", max_wps=0, multi_parent=2)
OPS = ["sim", "pause", "pause", "backward", "save_load", "save_load"]


@st.composite
def _case(draw, cfg):
    spec = draw(gen.model_spec(cfg))
    for t in spec["tasks"]:
        if t["comp"] is None and not t["nf"] and draw(st.integers(0, 5)) == 0:
            t["auto"] = True
            t["sub"] = {
                "unit_s": draw(st.sampled_from([60, 120, 3600, 86400])),
                "file": draw(st.sampled_from([None, "sub.json"])),
                "read": draw(st.booleans()),
                "rm_abs": draw(st.booleans()),
            }
    ops = draw(st.lists(st.tuples(st.sampled_from(OPS), st.integers(0, 12), st.booleans()), max_size=4))
    return {"spec": spec, "ops": [list(o) for o in ops] + [["save_load", 0, False]]}


CFG_DENSE = CFG.copy(min_comps=1, min_wps=1, max_wps=2, max_facs_per_wp=3, min_tasks=2, max_tasks=5, max_workers=4, inputs=False, onesided=0, servable=0,
                     work_pool=[2.0, 3.0, 4.0, 6.0, 8.0], progress=False, p_auto=0, kinds=[0, 0, 1])


@st.composite
def _case_dense(draw, cfg):
    """Several worker-facility pairs on one task at the moment of saving (paused runs): the order of the two parallel
    allocation lists of a task is part of what is saved."""
    spec = draw(gen.dense_pairs_spec(cfg, max_workers=4))
    k = draw(st.integers(1, 6))
    return {"spec": spec, "ops": [["pause", k, False], ["save_load", 0, False]] + ([["pause", k + draw(st.integers(1, 4)), True], ["save_load", 0, False]] if draw(st.booleans()) else [])}


def strategy(tier):
    if tier == "quick":
        return st.one_of(_case(CFG), _case(CFG), _case(CFG_N), _case_dense(CFG_DENSE))
    big = dict(max_tasks=9)
    return st.one_of(_case(CFG.copy(**big)), _case(CFG.copy(**big)), _case(CFG_N.copy(**big)), _case_dense(CFG_DENSE.copy(max_tasks=7)))


def budget(tier):
    if tier == "quick":
        return {"cases": 1600, "shards": 8}
    return {"cases": 40000, "shards": 16}


def check(case):
    verify_table()
    res = Result()
    probed = S.probe_saved_settings()
    lost = sorted(k for k, v in S.SAVED_SETTINGS.items() if v and not probed.get(k))
    if lost:
        names = {"wr": "worker_priority_rule", "fr": "facility_priority_rule", "wpr": "workplace_priority_rule", "mw": "main_workplace_id", "inputs": "input/output workplace links"}
        res.fail("C16.saved_setting", "a setting that is part of the saved format does not survive write + read: %s" % ", ".join(names[k] for k in lost), sig=lost[0])
        return res
    spec = case["spec"]
    opts = spec["opts"]
    h = S.build(spec)
    p = h.project
    stage = "never_simulated"
    nt = any(t.get("sub") for t in spec["tasks"])
    res.cls("has_subproject_task", nt)
    for i, (op, k, flag) in enumerate(case["ops"]):
        if op == "sim":
            S.simulate(p, opts)
            stage = "finished_forward"
        elif op == "pause":
            S.simulate(p, dict(opts, max_time=k))
            stage = "paused"
        elif op == "backward":
            S.backward_simulate(p, opts, considering_due_time_of_tail_tasks=flag)
            stage = "finished_backward"
        elif op == "save_load":
            res.cls("save_at_" + stage)
            if stage in ("paused", "finished_backward"):
                nt = True
            where = "save_load #%d at stage %s" % (i, stage)
            into = None
            if flag and k % 2 == 1:
                # the file is read into an old project object: a different model was simulated on it before
                hold = S.build(S.perturb(spec, 1))
                S.simulate(hold.project, dict(opts, max_time=8))
                into = hold.project
                res.cls("loaded_into_used_project")
            p2 = save_load(p, res, where, into=into)
            res.stats["save_loads"] += 1
            if p2 is None or res.violations:
                break
            # (5) re-simulation equality with a fresh build
            js = S.json_domain(spec)
            hf = S.build(js)
            S.simulate(hf.project, opts)
            try:
                S.simulate(p2, opts)
            except Exception as e:  # noqa: BLE001
                res.fail("C16.resimulate_raises", "%s: simulate() on the restored project raised %s: %s" % (where, type(e).__name__, e), sig=type(e).__name__)
                break
            if js == spec or True:
                d1, d2 = S.dump(hf.project), S.dump(p2)
                if js != spec:
                    res.cls("resimulation_on_saved_settings_domain")
                    # the original used settings that are not saved: compare against the restricted model only
                if d1 != d2:
                    diffs = S.diff_dumps(d1, d2)
                    if js == spec:
                        res.fail("C16.resimulate", "%s: the restored project re-simulates differently from a fresh build: %s" % (where, "; ".join(diffs[:3])))
                    else:
                        res.fail("C16.resimulate_saved_domain", "%s: restored project vs fresh build restricted to saved settings: %s" % (where, "; ".join(diffs[:3])))
            p = p2
            stage = "finished_forward"
    res.nontrivial = nt
    return res


# ---------------------------------------------------------------------------------------------
# exhaustive walk over the parameter table on a model where every parameter is non-default
# ---------------------------------------------------------------------------------------------
def kitchen_sink():
    def task(**kw):
        t = {"work": 2.0, "prog": 0.25, "auto": False, "nf": False, "comp": None, "wpr": 1, "wr": 2, "fr": 1,
             "fixw": [0], "fixf": None, "due": 7, "rate": 0.5}
        t.update(kw)
        return t

    spec = {
        "tasks": [
            task(comp=0, nf=True, fixf=[0, 1]),
            task(work=1.0, comp=0, prog=0.0, fixw=None, wr=-1, fr=2),
            task(auto=True, fixw=None, sub={"unit_s": 120, "file": "sub.json", "read": True, "rm_abs": True}, work=3.0),
            task(work=0.0, prog=0.0, fixw=[], wpr=0, wr=1, fr=-1, due=0),
        ],
        "deps": [[0, 1, 0], [0, 2, 1], [1, 3, 2], [2, 3, 3]],
        "order": [2, 0, 1, 3],
        "comps": [{"space": 1.5, "parent": None}, {"space": 0.5, "parent": 0}],
        "teams": [{"targets": [0, 1, 3]}, {"targets": [1]}],
        "workers": [
            {"team": 0, "cost": 3.0, "solo": False, "skills": {"0": 1.0, "1": 0.5, "3": 1.0}, "fsk": {"0": 1.0, "1": 1.0}, "abs": [1], "mw": 1},
            {"team": 1, "cost": 0.0, "solo": True, "skills": {"1": 2.0}, "fsk": {}, "abs": [], "mw": None},
        ],
        "wps": [{"cap": 2.0, "targets": [0, 1], "inputs": []}, {"cap": 3.0, "targets": [0], "inputs": [0]}],
        "facs": [
            {"wp": 0, "cost": 2.0, "solo": False, "skills": {"0": 1.0}, "abs": [2]},
            {"wp": 1, "cost": 0.5, "solo": True, "skills": {"0": 2.0}, "abs": []},
        ],
        "opts": {"rule": 2, "abs": [0, 3], "auto_abs": True, "max_time": 60},
    }
    return spec


def extra(tier, seed):
    verify_table()
    spec = kitchen_sink()
    res = Result()
    n = 0
    stages = []
    for stage in ("never_simulated", "paused", "finished_forward", "finished_backward"):
        h = S.build(spec)
        p = h.project
        p.organization.team_list[1].set_parent_team(p.organization.team_list[0])
        p.organization.workplace_list[1].set_parent_workplace(p.organization.workplace_list[0])
        if stage == "paused":
            S.simulate(p, dict(spec["opts"], max_time=3))
        elif stage == "finished_forward":
            S.simulate(p, spec["opts"])
        elif stage == "finished_backward":
            S.backward_simulate(p, spec["opts"], considering_due_time_of_tail_tasks=True)
        save_load(p, res, "kitchen sink at stage " + stage, name="ks.json")
        n += sum(len(TABLE[c][1]) for c, _, _ in objects_of(p) if c in TABLE)
        stages.append(stage)
    failures = []
    seen = set()
    for v in res.violations:
        if v.bucket in seen:
            continue
        seen.add(v.bucket)
        failures.append({"bucket": v.bucket + "|table", "clause": v.clause, "detail": v.detail, "case": {"spec": spec, "ops": [["save_load", 0, False]]}})
    return {
        "evals": n,
        "nt": set("table:" + s for s in stages),
        "failures": failures[:8],
        "stats": {"parameter_table_attribute_checks": n},
        "coverage": {"parameter_table_attribute_checks": n, "parameter_table_stages": stages,
                     "parameter_table_classes": sorted(TABLE)},
    }
