#!/usr/bin/env python3
"""Check that every /verif/seeded/<id>/patch.diff applies to /repo's HEAD; re-base the ones that do not
(three-way apply in a scratch worktree; the previous patch is kept as patch.orig.diff / patch.rebasedN.diff)."""
import glob
import os
import shutil
import subprocess
import sys

VERIF = os.path.dirname(os.path.dirname(os.path.abspath(__file__)))


def sh(*cmd, **kw):
    return subprocess.run(list(cmd), capture_output=True, text=True, **kw)


def main():
    bad = []
    for d in sorted(glob.glob(os.path.join(VERIF, "seeded", "*"))):
        patch = os.path.join(d, "patch.diff")
        if sh("git", "-C", "/repo", "apply", "--check", patch).returncode == 0:
            continue
        wt = "/tmp/rebase_wt_%d" % os.getpid()
        sh("git", "-C", "/repo", "worktree", "add", "--detach", wt, "HEAD")
        try:
            r = sh("git", "-C", wt, "apply", "-3", patch)
            if r.returncode != 0 or "with conflicts" in r.stderr:
                bad.append((os.path.basename(d), r.stderr.strip()[:200]))
                continue
            sh("git", "-C", wt, "reset", "-q")
            new = sh("git", "-C", wt, "diff").stdout
            n = 0
            keep = os.path.join(d, "patch.orig.diff")
            while os.path.exists(keep):
                n += 1
                keep = os.path.join(d, "patch.rebased%d.diff" % n)
            shutil.copy(patch, keep)
            open(patch, "w").write(new)
            print("rebased", os.path.basename(d))
        finally:
            sh("git", "-C", "/repo", "worktree", "remove", "--force", wt)
    for name, err in bad:
        print("CANNOT REBASE", name, err)
    print("all patches apply" if not bad else "%d patches need manual work" % len(bad))
    return 1 if bad else 0


if __name__ == "__main__":
    sys.exit(main())
