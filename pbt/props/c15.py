"""C15 - a run paused at any step and resumed gives exactly the uninterrupted result."""
from hypothesis import strategies as st

from .. import gen
from .. import spec as S
from ..core import Result

PID = "C15"
LEVEL = "fault_enumeration"
RULE = (
    "Hypothesis-generated models (profiles W/F/N, all dependency kinds, all rules, absences) and options; for each "
    "model the uninterrupted run is the reference and EVERY pause step k = 0..makespan is enumerated: "
    "dump(simulate(max_time=k); simulate(initialize_state_info=False, initialize_log_info=False)) must equal the "
    "reference dump exactly (all logs, costs, time, status). The JSON variant (write_simple_json, read into a new "
    "BaseProject, resume there) is run at generated pause points in the quick tier and at every pause point in the "
    "thorough tier, on the model restricted to settings that are part of the saved format (probed at start-up by "
    'One case in three runs with simulate(unit_time=2 or 3), so that pause times fall between step times. '
    'Conveyor-line cases (workplaces chained by input links) go through the JSON route as well. '
    "round-tripping a model with non-default settings). Thorough also pauses twice. Non-trivial = a pause strictly "
    "inside the run at which some task is WORKING and another still NONE; distinct by (spec hash)."
)
ASSUMPTIONS = [
    "deterministic skills; the resumed call repeats the original rule/absence/flag/max_time arguments",
    "JSON variant: plain pDESy classes only; settings not in the saved format are at their constructor defaults",
]
TECHNIQUE = "property-based testing (Hypothesis) + exhaustive enumeration of pause points per generated model; differential dump equality"
LEVEL_TEXT = (
    "For each generated model every crash/pause point is enumerated exhaustively and the resumed result is compared "
    "with the uninterrupted run value-for-value; models are sampled, pause points are complete per model."
)
LEVEL_NOTE = "Trusts the dump (all logs, time, costs, status). Which settings are saved is probed, not assumed."

CFG = gen.Cfg(onesided=4, servable=3, 
    facilities=True, max_time=[40], min_tasks=2, max_tasks=6, abs_max=15, chain_components=True,
    work_pool=[0.0, 0.5, 1.0, 1.0, 2.0, 2.0, 3.0],
)
CFG_N = CFG.copy(nested="assembly")
# contention on often-absent workers under the rules that read the PERT values (slack, earliest start): what the
# allocation sees at the first step after a pause must be what it would have seen without the pause
CFG_W = gen.Cfg(servable=0, facilities=False, max_time=[40], min_tasks=2, max_tasks=5, max_workers=3, abs_max=12, abs_p=1, abs_size=6, abs_long=0,
                rules=[0, 0, 0, 1, 1], work_pool=[1.0, 2.0, 3.0, 4.0, 6.0, 8.0, 10.0], p_auto=0, max_deps_factor=1, per_task_rules=False, kinds=[0, 0, 0, 1], progress=False, project_abs=False)


@st.composite
def _case(draw, cfg, tier):
    spec = draw(gen.model_spec(cfg))
    return {
        "spec": spec,
        "jk": draw(st.lists(st.integers(0, 30), unique=True, min_size=1, max_size=3)),
        "all_json": tier != "quick",
        "twice": draw(st.lists(st.integers(0, 30), min_size=2, max_size=2)) if tier != "quick" else None,
        "unit_time": draw(st.sampled_from([1, 1, 1, 2, 3])),
    }


@st.composite
def _case_w(draw, cfg, tier):
    case = draw(_case(cfg, tier))
    spec = case["spec"]
    n = len(spec["tasks"])
    for tm in spec["teams"]:
        tm["targets"] = list(range(n))
        tm.pop("notask", None)
    if not spec["workers"]:
        spec["workers"].append({"team": 0, "cost": 1.0, "solo": False, "skills": {}, "fsk": {}, "abs": [], "mw": None})
    back = draw(st.integers(0, len(spec["workers"]) - 1))  # the one who comes back from leave and can do everything
    for wi, w in enumerate(spec["workers"]):
        w["solo"] = False
        w["team"] = 0
        if wi == back:
            w["skills"] = {str(i): 1.0 for i in range(n)}
            w["abs"] = list(range(0, draw(st.integers(2, 7))))
        else:
            w["skills"] = {str(i): 1.0 for i in range(n) if draw(st.booleans())}
            w["abs"] = []
            if draw(st.integers(0, 3)) == 0:
                a0 = draw(st.sampled_from([0, 1, 2, 4]))
                w["abs"] = list(range(a0, a0 + draw(st.integers(1, 4))))
    if len(spec["deps"]) > 1 and draw(st.booleans()):
        spec["deps"] = spec["deps"][:1]  # mostly parallel work
    for t in spec["tasks"]:
        t["fixw"] = None
    gen.share_skills_by_name(spec)
    return case


@st.composite
def _case_conv(draw, tier):
    """Conveyor lines (workplaces chained by input links, components hopping from one to the next): where a component
    may go after the pause is decided by links that have to survive the JSON file."""
    from . import c13

    case = draw(_case(CFG, tier))
    spec = draw(c13._conveyor(c13.CFG_CONV))
    spec.pop("warm", None)
    spec.pop("unit_time", None)
    case["spec"] = spec
    return case


def strategy(tier):
    if tier == "quick":
        return st.one_of(_case(CFG, tier), _case(CFG, tier), _case(CFG_N, tier), _case_w(CFG_W, tier), _case_w(CFG_W, tier), _case_w(CFG_W, tier), _case_conv(tier))
    big = dict(max_tasks=9, max_time=[40])
    return st.one_of(_case(CFG.copy(**big), tier), _case(CFG.copy(**big), tier), _case(CFG_N.copy(**big), tier), _case_w(CFG_W.copy(max_tasks=7, max_workers=4), tier), _case_conv(tier))


def budget(tier):
    if tier == "quick":
        return {"cases": 2000, "shards": 8}
    return {"cases": 12000, "shards": 16}


RESUME = dict(initialize_state_info=False, initialize_log_info=False)


def _first_diff(a, b):
    d = S.diff_dumps(a, b)
    return "; ".join(d[:3])


def check(case):
    res = Result()
    spec = case["spec"]
    opts = spec["opts"]
    res.key = S.spec_hash(spec)
    u = int(case.get("unit_time", 1))
    ex = {"unit_time": u} if u != 1 else {}  # one step may cover several time units; pause times need not be step times
    res.cls("unit_time_%d" % u, u != 1)
    res.key += "u%d" % u
    href = S.build(spec)
    S.simulate(href.project, opts, **ex)
    dref = S.dump(href.project)
    N = href.project.time
    res.cls("reference_failure_run", int(href.project.status) == -1)
    inside_nt = False
    for k in range(0, N + 1):
        h = S.build(spec)
        S.simulate(h.project, dict(opts, max_time=k), **ex)
        states = [int(t.state) for t in h.project.workflow.task_list]
        if 0 < k < N and S.WORKING in states and S.NONE in states:
            inside_nt = True
        S.simulate(h.project, opts, **RESUME, **ex)
        d = S.dump(h.project)
        res.stats["pause_points_memory"] += 1
        if d != dref:
            res.fail("C15.memory", "paused at k=%d of %d and resumed: %s" % (k, N, _first_diff(dref, d)))
            break
    # twice
    if case.get("twice"):
        k1, k2 = sorted(x % (N + 1) for x in case["twice"])
        h = S.build(spec)
        S.simulate(h.project, dict(opts, max_time=k1), **ex)
        S.simulate(h.project, dict(opts, max_time=k2), **RESUME, **ex)
        S.simulate(h.project, opts, **RESUME, **ex)
        res.stats["pause_twice"] += 1
        d = S.dump(h.project)
        if d != dref:
            res.fail("C15.memory_twice", "paused at k=%d and k=%d of %d and resumed: %s" % (k1, k2, N, _first_diff(dref, d)))
    # JSON variant on the saved-settings domain
    js = S.json_domain(spec)
    if js != spec:
        res.cls("json_domain_restricted")
        hj = S.build(js)
        S.simulate(hj.project, opts, **ex)
        drefj = S.dump(hj.project)
        Nj = hj.project.time
    else:
        drefj, Nj = dref, N
    ks = range(0, Nj + 1) if case.get("all_json") else sorted(set(x % (Nj + 1) for x in case["jk"]))
    for k in ks:
        h = S.build(js)
        S.simulate(h.project, dict(opts, max_time=k), **ex)
        p2, _ = S.json_roundtrip(h.project)
        S.simulate(p2, opts, **RESUME, **ex)
        res.stats["pause_points_json"] += 1
        d = S.dump(p2)
        if d != drefj:
            res.fail("C15.json", "paused at k=%d of %d, saved, loaded into a new project and resumed: %s" % (k, Nj, _first_diff(drefj, d)))
            break
    res.cls("nested", any(c.get("parent") is not None for c in spec["comps"]))
    res.cls("facilities", bool(spec["facs"]))
    res.nontrivial = inside_nt
    return res
