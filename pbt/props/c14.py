"""C14 - a component's state is determined by the states of its tasks."""
from .. import gen
from .. import simcheck
from ..core import Result

PID = "C14"
LEVEL = "exploration"
RULE = (
    "One spec in three has lived before (warm start): another model edited in place into this one or swapped into the old project object, or the model's own run cut short by max_time and then continued with one of the unequal initialize-flag combinations (state carried over and logs restarted, or state reset and logs appended), or a first run that does not initialize the logs. "
    'One cold-started spec in six is simulated with unit_time 2 or 3 (absence lists in time units, steps and logs indexed by step). The log relation is re-checked after an overlapping insert_absence_time_list and after the following remove_absence_time_list. '
    'Hypothesis-generated products and workflows (0-5 components, flat and nested, arbitrary task-to-component assignment, components without tasks, tasks listed by a component without a back link or by two components, mixed default progress) simulated once. Oracle per step on the live updated/allocated/recorded snapshots and on the logs: FINISHED <=> all tasks FINISHED, any task WORKING => WORKING, not NONE while a task is READY/WORKING, never back to NONE, never leaves FINISHED; the log relation is re-checked on a run paused in the middle and resumed, in memory and through a JSON round trip. Non-trivial = a component whose tasks were in different states at some step; distinct by spec hash.'
)
ASSUMPTIONS = [
    "skill standard deviations are 0 (deterministic skills); unit_time=1; task_performed_mode='multi-workers'",
    "generated models respect the implicit preconditions of DESIGN.md section 4 (unique IDs/names, acyclic graph, forest products)",
]
TECHNIQUE = 'property-based testing (Hypothesis): generated products, component/task state relation on live snapshots and logs'
LEVEL_TEXT = 'Generated-input search with a relational invariant between component and task states at every step; not a proof.'
LEVEL_NOTE = 'Trusts the step observer and the builder.'

CFG = gen.Cfg(unit_time=6, warm_modes=["morph", "graft", "carry", "append", "nolog", "cutrerun"], warm=4, facilities=True, nested="assembly", max_time=[40, 80])
# arbitrary forests with arbitrary task assignment: only without workplaces (placement of nested
# products outside the assembly form crashes, known finding D-PLC4 of C13)
CFG_FREE = gen.Cfg(warm_modes=["morph", "graft", "carry", "append", "nolog", "cutrerun"], warm=3, facilities=True, nested="free", max_wps=0, max_time=[40, 80], multi_parent=2)
CFG_FLAT = gen.Cfg(unit_time=6, warm_modes=["morph", "graft", "carry", "append", "nolog", "cutrerun"], warm=2, facilities=True, max_time=[40, 80])


# many automatic tasks bound to components, project-wide absence steps early in the run (both settings of the flag)
CFG_AUTO = CFG_FLAT.copy(p_auto=2, abs_max=8, min_comps=1, warm=4)


def _with_one_sided_links(cfg):
    """arbitrary forests without workplaces, plus tasks that a component lists without a back link
    (BaseComponent(targeted_task_list=[...])) and tasks listed by two components"""
    from hypothesis import strategies as st

    @st.composite
    def build(draw):
        spec = draw(gen.model_spec(cfg))
        n = len(spec["tasks"])
        for c in spec["comps"]:
            if draw(st.integers(0, 2)) == 0:
                c["extra_tasks"] = sorted(set(draw(st.lists(st.integers(0, n - 1), min_size=1, max_size=2))))
        return spec

    return build()


def strategy(tier):
    from hypothesis import strategies as st

    if tier == "quick":
        return st.one_of(gen.model_spec(CFG), gen.model_spec(CFG_FREE), _with_one_sided_links(CFG_FREE), gen.model_spec(CFG_FLAT), gen.model_spec(CFG_AUTO))
    return st.one_of(
        gen.model_spec(CFG.copy(max_tasks=12, max_comps=7)),
        gen.model_spec(CFG_FREE.copy(max_tasks=12, max_comps=7)),
        _with_one_sided_links(CFG_FREE.copy(max_tasks=12, max_comps=7)),
        gen.model_spec(CFG_FLAT.copy(max_tasks=12, max_comps=7)),
        gen.model_spec(CFG_AUTO.copy(max_tasks=10, max_comps=5)),
    )


def budget(tier):
    if tier == "quick":
        return {"cases": 2500, "shards": 5}
    return {"cases": 150000, "shards": 16}


def check(spec):
    from .. import spec as S

    res = Result()
    sim = simcheck.Sim(spec)
    simcheck.check_c14(sim, res)
    if res.violations or sim.N < 2:
        return res
    # the same relation after a pause + resume, and after a pause + JSON round trip + resume
    k = sim.N // 2
    h = S.build(spec)
    S.simulate(h.project, dict(spec["opts"], max_time=k))
    S.simulate(h.project, spec["opts"], initialize_state_info=False, initialize_log_info=False)
    simcheck.check_c14_logs(h.project, res, "resumed")
    h = S.build(spec)
    S.simulate(h.project, dict(spec["opts"], max_time=k))
    p2, _ = S.json_roundtrip(h.project, "c14.json")
    S.simulate(p2, spec["opts"], initialize_state_info=False, initialize_log_info=False)
    simcheck.check_c14_logs(p2, res, "json_resumed")
    res.stats["resumed_runs"] += 2
    if res.violations:
        return res
    # ... and after the finished result has been edited: absence steps inserted (overlapping the steps already
    # present, a duplicate included) and removed again - components and tasks are edited through different objects
    p = sim.p
    if sim.t0 == 0 and not sim.backward:
        n = len(p.cost_list)
        present = [a for a in spec["opts"].get("abs", []) if a < n]
        ins = sorted(set([1 % (n + 1), n // 2] + present[:2]))
        p.insert_absence_time_list(list(ins))
        simcheck.check_c14_logs(p, res, "after_insert")
        if not res.violations:
            p.remove_absence_time_list()
            simcheck.check_c14_logs(p, res, "after_insert_and_remove")
        res.stats["edited_results"] += 1
    return res
