#!/usr/bin/env python3
"""Validate MANIFEST.json and evidence/*.json against the schemas (run with python3-vt, which has jsonschema)."""
import glob, json, sys, os
import jsonschema
V = os.path.dirname(os.path.dirname(os.path.abspath(__file__)))
ok = True
jsonschema.validate(json.load(open(V + "/MANIFEST.json")), json.load(open("/root/.vp/MANIFEST.schema.json")))
print("MANIFEST ok")
es = json.load(open("/root/.vp/EVIDENCE.schema.json"))
for f in sorted(glob.glob(V + "/evidence/*.json")):
    try:
        jsonschema.validate(json.load(open(f)), es)
        print("ok", os.path.basename(f))
    except Exception as e:
        ok = False
        print("INVALID", f, str(e)[:300])
sys.exit(0 if ok else 1)
