"""C13 - component placement respects location, capacity, conveyor and site rules."""
from hypothesis import strategies as st

from .. import gen
from .. import spec as S
from ..core import Result
from ..observe import Observer, T_AF, T_STATE, snap

PID = "C13"
LEVEL = "exploration"
RULE = (
    "Hypothesis-generated products and organisations: profile F (flat products, 0-5 components competing for 1-4 "
    "workplaces of any capacity, conveyor input links, facility sets, both workplace priority rules, all task "
    "rules) and profile N (one level of nesting in assembly form: every task of a parent component FS-follows every "
    "task of its children; parents carry an unfinished task and a workplace that can always take them; no conveyor "
    "links), plus a conveyor profile (workplaces chained by input links, each component's tasks targeted by successive workplaces) and a sibling profile (one parent, 2-4 children waiting side by side in shared workplaces before the parent collects them) and a parallel profile (components whose tasks, automatic ones included, are active side by side and served by different workplaces). Sizes and capacities are dyadic or decimal. Components may carry several tasks in any dependency relation. Oracle at every step, on the "
    "live snapshots and the logs: workplace contents <=> component placement (hence <= 1 workplace per component); "
    "sum of space sizes of the top-most placed components <= capacity + 1e-8; a component entering a workplace "
    "with declared inputs comes from one of them or from nowhere; <= 1 move per step (every placement assignment "
    "is recorded by a harness subclass of BaseComponent); no move while one of its tasks is WORKING; components "
    "whose top-level component has all tasks FINISHED are unplaced; facilities held by a task belong to the "
    "One spec in three has lived before (warm start): another model edited in place into this one or swapped into the old project object, or the model's own run cut short by max_time and then continued with one of the unequal initialize-flag combinations (state carried over and logs restarted, or state reset and logs appended), or a first run that does not initialize the logs. "
    "workplace where its component is placed. Non-trivial = two components competed for a workplace whose "
    "capacity admits fewer, or a conveyor hop was taken; distinct by spec hash."
)
ASSUMPTIONS = [
    "known findings D-PLC2..4 (KNOWN_FINDINGS.txt) are excluded by construction: nesting is one level deep, in "
    "assembly form, with placeable parents and without conveyor links (D-PLC1 is fixed)",
]
TECHNIQUE = "property-based testing (Hypothesis): generated products/workplaces, placement invariants on live snapshots, logs and recorded placement assignments"
LEVEL_TEXT = "Generated-input search with placement invariants at every step; nested products only on the restricted profile N; not a proof."
LEVEL_NOTE = "Trusts the step observer and a harness subclass of BaseComponent that records set_placed_workplace calls (no change to pDESy)."

CFG_F = gen.Cfg(warm_modes=["morph", "graft", "carry", "append", "nolog", "cutrerun"], warm=3, facilities=True, max_tasks=7, min_comps=1, max_comps=5, min_wps=1, max_wps=4, max_time=[40], p_auto=6,
                work_pool=[0.0, 0.5, 1.0, 1.0, 2.0, 3.0], kinds=[0, 0, 0, 1, 2, 3])
CFG_N = CFG_F.copy(nested="assembly", inputs=False)


def unordered_multi_task_component(spec):
    """region predicate of D-PLC1: some component has two tasks not ordered by FS paths."""
    reach = gen.fs_reach(spec)
    by_comp = {}
    for i, t in enumerate(spec["tasks"]):
        if t.get("comp") is not None:
            by_comp.setdefault(t["comp"], []).append(i)
    for ts in by_comp.values():
        for a in ts:
            for b in ts:
                if a < b and b not in reach[a]:
                    return True
    return False


def nested_outside_profile_n(spec):
    """region predicate of D-PLC2..4."""
    comps = spec["comps"]
    if not any(c.get("parent") is not None for c in comps):
        return False
    for c in comps:
        if c.get("parent") is not None and comps[c["parent"]].get("parent") is not None:
            return True  # deeper than one level (D-PLC2)
    if any(wp["inputs"] for wp in spec["wps"]):
        return True  # D-PLC3
    reach = gen.fs_reach(spec, strict=True)
    by_comp = {}
    for i, t in enumerate(spec["tasks"]):
        if t.get("comp") is not None:
            by_comp.setdefault(t["comp"], []).append(i)
    for ci, c in enumerate(comps):
        if c.get("parent") is None:
            continue
        par = by_comp.get(c["parent"], [])
        if not any(spec["tasks"][i]["prog"] < 1.0 - 1e-10 for i in par):
            return True  # parent without an unfinished task (D-PLC4)
        for a in by_comp.get(ci, []):
            for b in par:
                if b not in reach[a]:
                    return True  # not in assembly form (D-PLC4)
    return False


def make_parents_placeable(spec):
    """profile N repair: every parent component has an unfinished task and a workplace that can always take it."""
    comps = spec["comps"]
    parents = sorted(set(c["parent"] for c in comps if c.get("parent") is not None))
    if not parents:
        return 0
    changed = 0
    n = len(spec["tasks"])
    by_comp = {}
    for i, t in enumerate(spec["tasks"]):
        if t.get("comp") is not None:
            by_comp.setdefault(t["comp"], []).append(i)
    for pc in parents:
        ts = by_comp.get(pc, [])
        if not any(spec["tasks"][i]["prog"] < 1.0 - 1e-10 for i in ts):
            if ts:
                spec["tasks"][ts[-1]]["prog"] = 0.0
            else:
                # give the parent the last task without component, or un-nest its children
                free = [i for i, t in enumerate(spec["tasks"]) if t.get("comp") is None and not t.get("auto")]
                if free and free[-1] == max(free + [x for c in range(len(comps)) if comps[c].get("parent") == pc for x in by_comp.get(c, [])]):
                    spec["tasks"][free[-1]]["comp"] = pc
                    spec["tasks"][free[-1]]["prog"] = 0.0
                else:
                    for c in comps:
                        if c.get("parent") == pc:
                            c["parent"] = None
            changed += 1
    # the big workplace: room for everything, targets every task, a facility skilled for every task
    total = sum(c["space"] for c in comps) + 1.0
    spec["wps"].append({"cap": total, "targets": list(range(n)), "inputs": []})
    spec["facs"].append({"wp": len(spec["wps"]) - 1, "cost": 1.0, "solo": False, "skills": {str(i): 1.0 for i in range(n)}, "abs": []})
    for w in spec["workers"]:
        w["fsk"][str(len(spec["facs"]) - 1)] = 1.0
    gen.assembly_form(spec["tasks"], spec["deps"], comps)
    return changed


@st.composite
def _case(draw, cfg):
    spec = draw(gen.model_spec(cfg))
    if cfg.nested:
        spec["_repaired_parents"] = make_parents_placeable(spec)
    return spec


CFG_CONV = CFG_F.copy(default_names=1, min_tasks=3, max_tasks=7, max_comps=3, max_wps=4, p_auto=0, servable=0, kinds=[0, 0, 0, 1])


@st.composite
def _conveyor(draw, cfg):
    """Flat products on a conveyor: workplaces chained by input links, the tasks of each component are facility
    tasks targeted by successive workplaces, so that components actually hop (and compete for small workplaces)."""
    spec = draw(gen.model_spec(cfg))
    nw = len(spec["wps"])
    if nw < 2 or not spec["comps"]:
        return spec
    n = len(spec["tasks"])
    for i, wp in enumerate(spec["wps"]):
        wp["inputs"] = [i - 1] if i > 0 else []
        wp["targets"] = []
        wp.pop("notask", None)
    # one skilled facility per workplace at least
    for i in range(nw):
        if not any(f["wp"] == i for f in spec["facs"]):
            spec["facs"].append({"wp": i, "cost": 1.0, "solo": False, "skills": {}, "abs": []})
    pos = {}
    for ti, t in enumerate(spec["tasks"]):
        if t.get("comp") is None:
            t["comp"] = ti % len(spec["comps"])
        t["auto"] = False
        t["nf"] = True
        t["fixf"] = None
        k = pos.get(t["comp"], draw(st.integers(0, 1)))
        w = min(k, nw - 1)
        pos[t["comp"]] = k + draw(st.sampled_from([1, 1, 1, 2]))  # (2: the next task is served one workplace further down: no entry)
        spec["wps"][w]["targets"].append(ti)
        for f in spec["facs"]:
            if f["wp"] == w:
                f["skills"][str(ti)] = 1.0
    for w in spec["workers"]:
        w["fsk"] = {str(k): 1.0 for k in range(len(spec["facs"]))}
        for ti in range(n):
            w["skills"].setdefault(str(ti), 1.0)
    gen.chain_components(spec)
    return spec


@st.composite
def _siblings(draw):
    """Profile N, assembly shape: one parent with 2-4 children; every child has a facility task, the children
    share 1-2 workplaces (so that siblings wait side by side), the parent's task follows all of them and is
    targeted by another workplace that can take the whole assembly."""
    k = draw(st.integers(2, 4))
    sizes = [draw(st.sampled_from([0.5, 0.5, 1.0])) for _ in range(k)]
    psize = draw(st.sampled_from([0.5, 1.0, 2.0]))
    comps = [{"space": psize, "parent": None}] + [{"space": sz, "parent": 0} for sz in sizes]
    n_extra = draw(st.integers(0, 2))
    tasks = []

    def task(comp, work, nf=True):
        return {"work": work, "prog": 0.0, "auto": False, "nf": nf, "comp": comp, "wpr": draw(st.sampled_from([0, 1])), "wr": -1,
                "fr": 0, "fixw": None, "fixf": None, "due": -1, "rate": 1.0}

    for c in range(1, k + 1):
        tasks.append(task(c, draw(st.sampled_from([0.5, 1.0, 1.0, 2.0]))))
    for _ in range(n_extra):
        tasks.append(task(draw(st.integers(1, k)), draw(st.sampled_from([0.5, 1.0]))))
    nchild = len(tasks)
    tasks.append(task(0, draw(st.sampled_from([0.5, 1.0, 2.0])), nf=draw(st.booleans())))
    ptask = len(tasks) - 1
    deps = [[i, ptask, 0] for i in range(nchild)]
    n = len(tasks)
    shared = draw(st.integers(1, 2))
    wps = []
    facs = []
    for w in range(shared):
        # room for all children, or (one time in three) for all but the smallest: a finished child that waits for the
        # parent keeps its room, a sibling that does not fit has to go elsewhere or wait
        tight = draw(st.integers(0, 2)) == 0
        wps.append({"cap": (sum(sizes) - min(sizes)) if (tight and len(sizes) > 1) else sum(sizes) + draw(st.sampled_from([0.0, 0.5, 1.0])), "targets": list(range(nchild)), "inputs": []})
    wps.append({"cap": psize + sum(sizes) + 1.0, "targets": [ptask] + (list(range(nchild)) if draw(st.booleans()) else []), "inputs": []})
    for w in range(len(wps)):
        for _ in range(draw(st.integers(1, 2))):
            facs.append({"wp": w, "cost": 1.0, "solo": False, "skills": {str(i): 1.0 for i in range(n)}, "abs": []})
    nw = draw(st.integers(1, 3))
    workers = [
        {"team": 0, "cost": 1.0, "solo": False, "skills": {str(i): draw(st.sampled_from([0.5, 1.0, 1.0])) for i in range(n)},
         "fsk": {str(f): 1.0 for f in range(len(facs))}, "abs": [], "mw": None}
        for _ in range(nw)
    ]
    spec = {
        "tasks": tasks, "deps": deps, "order": list(draw(st.permutations(list(range(n))))), "comps": comps,
        "teams": [{"targets": list(range(n))}], "workers": workers, "wps": wps, "facs": facs,
        "opts": {"rule": draw(st.sampled_from(list(range(9)))), "abs": draw(st.lists(st.integers(0, 10), unique=True, max_size=2)),
                 "auto_abs": False, "max_time": 40},
    }
    if draw(st.booleans()):
        spec["default_names"] = True  # all workplaces are called "New Workplace": the conveyor links are between objects
    return spec


CFG_PAR = CFG_F.copy(min_tasks=3, max_tasks=6, min_comps=1, max_comps=2, min_wps=2, max_wps=3, max_facs_per_wp=2, p_auto=3, kinds=[0, 1, 1, 2], max_deps_factor=1,
                     inputs=False, progress=False, worker_abs=False)


@st.composite
def _parallel(draw, cfg):
    """Flat products whose components carry several tasks that are active side by side (automatic ones included),
    each served by some but not all workplaces: a READY task would like its component elsewhere while another task
    of the same component is WORKING where it is."""
    spec = draw(gen.model_spec(cfg))
    n = len(spec["tasks"])
    nc = len(spec["comps"])
    for ti, t in enumerate(spec["tasks"]):
        t["comp"] = draw(st.integers(0, nc - 1))
        t["nf"] = not t["auto"]
        t["fixw"] = None
        t["fixf"] = None
    for k, wp in enumerate(spec["wps"]):
        wp["cap"] = 10.0
        wp.pop("notask", None)
    for ti in range(n):
        # each task is served by one or two of the workplaces
        ks = draw(st.lists(st.integers(0, len(spec["wps"]) - 1), min_size=1, max_size=2, unique=True))
        for k, wp in enumerate(spec["wps"]):
            wp["targets"] = sorted((set(wp["targets"]) - {ti}) | ({ti} if k in ks else set()))
    have = set(f["wp"] for f in spec["facs"])
    for k in range(len(spec["wps"])):
        if k not in have:
            spec["facs"].append({"wp": k, "cost": 1.0, "solo": False, "skills": {}, "abs": []})
    for f in spec["facs"]:
        f["skills"] = {str(i): 1.0 for i in range(n)}
        f["solo"] = False
        f.setdefault("abs", [])
        f.setdefault("cost", 1.0)
    for tm in spec["teams"]:
        tm["targets"] = list(range(n))
        tm.pop("notask", None)
    if not spec["workers"]:
        spec["workers"].append({"team": 0, "cost": 1.0, "solo": False, "skills": {}, "fsk": {}, "abs": [], "mw": None})
    for w in spec["workers"]:
        w["skills"] = {str(i): 1.0 for i in range(n)}
        w["fsk"] = {str(j): 1.0 for j in range(len(spec["facs"]))}
        w["solo"] = False
    gen.share_skills_by_name(spec)
    return spec


def strategy(tier):
    if tier == "quick":
        return st.one_of(_case(CFG_F), _case(CFG_F), _case(CFG_N), _conveyor(CFG_CONV), _siblings(), _parallel(CFG_PAR))
    big = dict(max_tasks=10, max_comps=6)
    return st.one_of(_case(CFG_F.copy(**big)), _case(CFG_F.copy(**big)), _case(CFG_N.copy(**big)), _conveyor(CFG_CONV.copy(max_tasks=10, max_comps=4)), _siblings(),
                     _parallel(CFG_PAR.copy(max_tasks=9, max_comps=3)))


def budget(tier):
    if tier == "quick":
        return {"cases": 4200, "shards": 7}
    return {"cases": 150000, "shards": 16}


def check(spec):
    res = Result()
    spec = dict(spec)
    repaired = spec.pop("_repaired_parents", 0)
    if repaired:
        res.excluded["D-PLC4_parent_made_placeable"] += 1
    witness = spec.pop("_witness", False)  # known-finding witnesses are evaluated inside their region
    if not witness:
        if nested_outside_profile_n(spec):
            res.excluded["in_region_D-PLC2-4"] += 1
            return res
    res.key = S.spec_hash(spec)
    ncomp = len(spec["comps"])
    h = S.warm_build(spec, comp_hashes=list(range(ncomp)))
    res.cls("warm_" + str((spec.get("warm") or {}).get("mode")), bool(spec.get("warm")))
    p = h.project
    per_step_assign = []

    def extra(project, phase):
        if phase == "updated":
            per_step_assign.append(None)
            for c in h.comps:
                c._assignments = []
        elif phase == "allocated":
            per_step_assign[-1] = {c.ID: list(getattr(c, "_assignments", [])) for c in h.comps}

    obs = Observer(phases=("updated", "allocated", "recorded"), extra=extra).install(p)
    t0 = getattr(h, "t0", 0)  # "append" warm start: the logs begin with the t0 steps of the earlier, cut-short run
    S.simulate(p, spec["opts"], **getattr(h, "sim_extra", {}))
    Observer.uninstall(p)

    comps = spec["comps"]
    cids = [S.cid(i) for i in range(ncomp)]
    size = {cids[i]: comps[i]["space"] for i in range(ncomp)}
    parent = {cids[i]: (cids[comps[i]["parent"]] if comps[i].get("parent") is not None else None) for i in range(ncomp)}
    top = {}
    for c in cids:
        x = c
        while parent[x] is not None:
            x = parent[x]
        top[c] = x
    comp_tasks = {c: [] for c in cids}
    for i, t in enumerate(spec["tasks"]):
        if t.get("comp") is not None:
            comp_tasks[cids[t["comp"]]].append(S.tid(i))
    wp_cap = {S.wpid(i): w["cap"] for i, w in enumerate(spec["wps"])}
    wp_inputs = {S.wpid(i): [S.wpid(k) for k in w["inputs"]] for i, w in enumerate(spec["wps"])}
    fac_wp = {S.fid(i): S.wpid(f["wp"]) for i, f in enumerate(spec["facs"])}
    task_comp = {S.tid(i): (cids[t["comp"]] if t.get("comp") is not None else None) for i, t in enumerate(spec["tasks"])}

    competed = False
    hop = False
    wanted_elsewhere = False

    def snapshot_invariants(sn, where, strict_finished):
        # 1. two-way consistency, at most one workplace
        listed = {}
        for w, contents in sn["wps"].items():
            if len(set(contents)) != len(contents):
                res.fail("C13.duplicate_listing", "%s: workplace %s lists %s" % (where, w, list(contents)))
            for c in contents:
                listed.setdefault(c, []).append(w)
        for c in cids:
            placed = sn["comps"][c][1]
            ws = listed.get(c, [])
            if len(ws) > 1:
                res.fail("C13.two_workplaces", "%s: component %s is listed by workplaces %s" % (where, c, ws))
            if (placed is None and ws) or (placed is not None and ws != [placed]):
                res.fail("C13.two_way", "%s: component %s reports %s but is listed by %s" % (where, c, placed, ws), sig="child" if parent[c] else "top")
        # 2. capacity (top-most placed components)
        for w, contents in sn["wps"].items():
            used = sum(size[c] for c in contents if parent[c] is None or parent[c] not in contents)
            if used > wp_cap[w] + 1e-8:
                res.fail("C13.capacity", "%s: workplace %s (capacity %r) holds %s using %r" % (where, w, wp_cap[w], list(contents), used))
        # 7. facilities of a task belong to the workplace of its component
        for t_id, tt in sn["tasks"].items():
            for f in tt[T_AF]:
                c = task_comp[t_id]
                placed = sn["comps"][c][1] if c is not None else None
                if fac_wp[f] != placed:
                    res.fail("C13.facility_site", "%s: task %s works with facility %s of %s but its component %s is placed at %s" % (where, t_id, f, fac_wp[f], c, placed))
        # 6. finished top-level component => unplaced (evaluated right after the update phase)
        if strict_finished:
            for c in cids:
                tp = top[c]
                if all(sn["tasks"][t][T_STATE] == S.FINISHED for t in comp_tasks[tp]) and sn["comps"][c][1] is not None:
                    res.fail("C13.finished_still_placed", "%s: all tasks of top-level component %s are FINISHED but %s is still placed at %s" % (where, tp, c, sn["comps"][c][1]), sig="child" if c != tp else "top")

    prev_loc = {c: None for c in cids}
    for s, d in enumerate(obs.steps):
        upd, alloc, rec = d.get("updated"), d.get("allocated"), d.get("recorded")
        if upd is not None:
            snapshot_invariants(upd, "step %d/updated" % s, True)
        if alloc is None:
            continue
        snapshot_invariants(alloc, "step %d/allocated" % s, False)
        if rec is not None:
            snapshot_invariants(rec, "step %d/recorded" % s, False)
        assigns = per_step_assign[s] or {}
        for c in cids:
            loc0 = upd["comps"][c][1]
            loc1 = alloc["comps"][c][1]
            seq = [w for w in assigns.get(c, []) if w is not None]
            moves = 0
            cur = loc0
            for w in seq:
                if w != cur:
                    moves += 1
                    # 3. conveyor rule for every entry
                    if wp_inputs[w] and cur is not None and cur not in wp_inputs[w]:
                        res.fail("C13.conveyor", "step %d: component %s entered %s (inputs %s) from %s" % (s, c, w, wp_inputs[w], cur), sig="child" if parent[c] else "top")
                    if wp_inputs[w] and cur is not None and cur in wp_inputs[w]:
                        hop = True
                    cur = w
            if moves > 1:
                res.fail("C13.moves_per_step", "step %d: component %s was moved %d times (%s)" % (s, c, moves, assigns.get(c)))
            if loc1 != loc0:
                # 5. never while one of its tasks is WORKING
                if any(upd["tasks"][t][T_STATE] == S.WORKING for t in comp_tasks[c]):
                    res.fail("C13.moved_while_working", "step %d: component %s moved %s -> %s while one of its tasks is WORKING" % (s, c, loc0, loc1))
                if loc1 is not None and wp_inputs[loc1] and loc0 is not None and loc0 not in wp_inputs[loc1] and not seq:
                    res.fail("C13.conveyor", "step %d: component %s went %s -> %s (inputs %s)" % (s, c, loc0, loc1, wp_inputs[loc1]), sig="unrecorded")
        # competition classifier: a READY component of a facility task stayed unplaced although some targeted workplace exists
        for i, t in enumerate(spec["tasks"]):
            if t.get("comp") is not None and alloc["tasks"][S.tid(i)][T_STATE] == S.READY and alloc["comps"][cids[t["comp"]]][1] is None:
                if any(i in w["targets"] for w in spec["wps"]) and any(v for v in alloc["wps"].values()):
                    competed = True
    # logs agree with the live placement
    for k in range(t0, len(p.cost_list)):
        rec = obs.steps[k - t0]["recorded"]
        for ci, c in enumerate(h.comps):
            if c.placed_workplace_id_record[k] != rec["comps"][c.ID][1]:
                res.fail("C13.log_component", "component %s placement log[%d]=%s, live %s" % (c.ID, k, c.placed_workplace_id_record[k], rec["comps"][c.ID][1]))
        for wp in h.wps:
            if list(wp.placed_component_id_record[k]) != list(rec["wps"][wp.ID]):
                res.fail("C13.log_workplace", "workplace %s contents log[%d]=%s, live %s" % (wp.ID, k, wp.placed_component_id_record[k], list(rec["wps"][wp.ID])))
    res.cls("nested", any(c.get("parent") is not None for c in comps))
    res.cls("multi_task_component_unordered", unordered_multi_task_component(spec))
    res.cls("conveyor_links", any(w["inputs"] for w in spec["wps"]))
    res.cls("competition", competed)
    res.cls("some_component_placed", any(x is not None for c in h.comps for x in c.placed_workplace_id_record))
    res.cls("conveyor_hop", hop)
    res.nontrivial = competed or hop
    res.stats["steps"] += len(p.cost_list)
    return res
