#!/bin/sh
# Offline setup: make sure Hypothesis is importable by /venv/bin/python (wheelhouse only, no network).
cd "$(dirname "$0")" || exit 1
PY=/venv/bin/python
export PIP_NO_INDEX=1 PIP_DISABLE_PIP_VERSION_CHECK=1
if ! "$PY" -c 'import hypothesis' 2>/dev/null; then
  /venv/bin/pip install --no-index --find-links /opt/veriftools/wheels hypothesis >/dev/null 2>&1 ||
  /venv/bin/pip install --no-index --find-links /opt/veriftools/wheels --target "$PWD/.deps" hypothesis || exit 1
fi
# atheris is used by the thorough tier only (second engine for C19/C11); optional.
if ! PYTHONPATH="$PWD/.deps" "$PY" -c 'import atheris' 2>/dev/null; then
  /venv/bin/pip install --no-index --find-links /opt/veriftools/wheels --target "$PWD/.deps" atheris >/dev/null 2>&1 ||
  echo "note: atheris not installed; thorough tier falls back to Hypothesis only"
fi
PYTHONPATH="$PWD/.deps" "$PY" -c 'import hypothesis, sys; sys.path.insert(0, "/repo"); import pDESy; print("setup ok: hypothesis", hypothesis.__version__, "pDESy from", pDESy.__file__)'
