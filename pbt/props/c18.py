"""C18 - editing absence steps out of or into finished logs keeps all logs aligned (history property)."""
from hypothesis import strategies as st

from .. import gen
from .. import spec as S
from ..core import Result

PID = "C18"
LEVEL = "exploration"
RULE = (
    "Model-based history testing: Hypothesis generates a model (profiles W/F/N), simulates it with a generated "
    "project-wide absence list, then applies a generated sequence of 1-5 remove_absence_time_list() / "
    "insert_absence_time_list(L) calls, L = indices drawn from [0, N+5] (step 0, steps already present, "
    "steps beyond the end, and lists naming a step twice). Oracle after every call: no exception; every per-step log of every object changed by "
    "the same number of entries; project.time == the common length; entries at inserted indices show no WORKING "
    "task/worker/facility, zero cost at every level and the remaining work of the preceding entry (initial "
    "remaining work at index 0); on an absence-free result insert(L) followed by remove() restores the previous "
    'Insert lists are passed in the generated order, not ascending. '
    "dump exactly. Non-trivial = a history with an insert that actually adds entries strictly inside the run and "
    "a later remove; distinct by case hash."
)
ASSUMPTIONS = [
    "indices in one insert call are positions in the resulting logs (inserted in ascending order), as in the code",
    "a step at or beyond the end of the logs may be ignored or appended; the oracle only demands that every log and "
    "project.time agree",
]
TECHNIQUE = "model-based (stateful) property testing with Hypothesis: generated edit histories, alignment invariant and insert/remove round trip"
LEVEL_TEXT = "Generated edit histories with an alignment invariant after every call and a round-trip oracle; not a proof."
LEVEL_NOTE = "Pure log edits after a simulation; trusts the dump of all logs."

CFG = gen.Cfg(onesided=4, servable=3, facilities=True, max_tasks=6, max_time=[30], abs_max=12, chain_components=True,
              work_pool=[0.0, 0.5, 1.0, 1.0, 2.0, 3.0])
CFG_N = CFG.copy(nested="assembly")


@st.composite
def _case(draw, cfg):
    spec = draw(gen.model_spec(cfg))
    for t in spec["tasks"]:
        if t["comp"] is None and not t["nf"] and draw(st.integers(0, 7)) == 0:
            t["auto"] = True
            t["sub"] = {"unit_s": 60}
    ops = draw(
        st.lists(
            st.one_of(
                st.just(["remove"]),
                st.just(["remove"]),
                # the project is simulated again in the middle of the history, without or with other absence steps
                st.sampled_from([["resim", []], ["resim", []], ["resim", [1, 2]], ["resim", [0, 3, 40]]]),
                st.tuples(st.just("insert"), st.lists(st.integers(0, 60), min_size=1, max_size=4)).map(lambda t: [t[0], t[1]]),
                st.tuples(st.just("insert"), st.lists(st.sampled_from([0, 0, 1, 2]), min_size=1, max_size=2)).map(lambda t: [t[0], t[1]]),
                # a list that names a step twice ("any list of step indices")
                st.tuples(st.just("insert_dup"), st.lists(st.integers(0, 20), min_size=1, max_size=3)).map(lambda t: [t[0], t[1] + t[1][:1]]),
            ),
            min_size=1,
            max_size=5,
        )
    )
    return {"spec": spec, "ops": ops}


def strategy(tier):
    if tier == "quick":
        return st.one_of(_case(CFG), _case(CFG), _case(CFG_N))
    big = dict(max_tasks=9)
    return st.one_of(_case(CFG.copy(**big)), _case(CFG.copy(**big)), _case(CFG_N.copy(**big)))


def budget(tier):
    if tier == "quick":
        return {"cases": 1500, "shards": 4}
    return {"cases": 100000, "shards": 16}


def _lengths(p, res, where):
    lens = S.all_log_lengths(p)
    vals = set(ln for _, ln in lens)
    if len(vals) != 1:
        by = {}
        for lab, ln in lens:
            by.setdefault(ln, []).append(lab)
        minority = sorted(by.items(), key=lambda kv: len(kv[1]))[0]
        res.fail(
            "C18.alignment",
            "%s: logs have different lengths %s (e.g. %s has %d)" % (where, sorted(vals), minority[1][0], minority[0]),
            sig=minority[1][0].split(".")[-1] if "." in minority[1][0] else minority[1][0],
        )
        return None
    n = vals.pop()
    if p.time != n:
        res.fail("C18.time", "%s: project.time=%d but every log has %d entries" % (where, p.time, n))
        return None
    return n


def _inserted_positions(n, absence_now, L):
    """positions at which rule 'ignore steps at/after the end' inserts (ascending order, running length)."""
    pos = []
    cur = n
    for s in sorted(x for x in L if x not in absence_now):
        if s < cur:
            pos.append(s)
            cur += 1
    return pos


def _check_inserted(h, spec, pos, res, where):
    p = h.project
    for s in pos:
        for i, t in enumerate(h.tasks):
            if int(t.state_record_list[s]) == S.WORKING:
                res.fail("C18.inserted_working", "%s: task %s logged WORKING at inserted step %d" % (where, t.ID, s), sig="task")
            rem = t.remaining_work_amount_record_list
            exp = rem[s - 1] if s > 0 else spec["tasks"][i]["work"] * (1.0 - spec["tasks"][i]["prog"])
            if rem[s] != exp:
                res.fail("C18.inserted_remaining", "%s: task %s remaining %r at inserted step %d, preceding value %r" % (where, t.ID, rem[s], s, exp), sig="step0" if s == 0 else "")
        for c in h.comps:
            if int(c.state_record_list[s]) == S.WORKING:
                res.fail("C18.inserted_working", "%s: component %s logged WORKING at inserted step %d" % (where, c.ID, s), sig="component")
        for kind, objs in (("worker", h.workers), ("facility", h.facs)):
            for r in objs:
                if int(r.state_record_list[s]) == S.R_WORKING:
                    res.fail("C18.inserted_working", "%s: %s %s logged WORKING at inserted step %d" % (where, kind, r.ID, s), sig=kind)
                if r.cost_list[s] != 0.0:
                    res.fail("C18.inserted_cost", "%s: %s %s cost %r at inserted step %d" % (where, kind, r.ID, r.cost_list[s], s), sig=kind)
        for label, lst in [("project", p.cost_list), ("organization", p.organization.cost_list)] + [("team", tm.cost_list) for tm in h.teams] + [("workplace", wp.cost_list) for wp in h.wps]:
            if lst[s] != 0.0:
                res.fail("C18.inserted_cost", "%s: %s cost %r at inserted step %d" % (where, label, lst[s], s), sig=label)


def check(case):
    res = Result()
    spec = case["spec"]
    h = S.build(spec)
    p = h.project
    S.simulate(p, spec["opts"])
    n = _lengths(p, res, "after simulate")
    if n is None:
        return res
    inserted_inside = False
    removed_after_insert = False
    roundtrips = 0
    model_abs = list(spec["opts"].get("abs", []))
    for i, op in enumerate(case["ops"]):
        where = "after op %d %s" % (i, op)
        absence_now = list(model_abs)  # the harness's own record of the registered absence steps
        if op[0] == "resim":
            # the project is simulated again, with another (maybe empty) absence list: what was registered before is gone
            S.simulate(p, dict(spec["opts"], abs=list(op[1])))
            model_abs = list(op[1])
            n = _lengths(p, res, where)
            if n is None:
                return res
            inserted_inside = False
            res.cls("re_simulated_in_history")
            continue
        if op[0] == "remove":
            try:
                p.remove_absence_time_list()
            except Exception as e:  # noqa: BLE001
                res.fail("C18.exception", "remove_absence_time_list() raised %s: %s (absence list %s, %d steps)" % (type(e).__name__, e, absence_now, n), sig="remove_" + type(e).__name__)
                return res
            if inserted_inside:
                removed_after_insert = True
            n2 = _lengths(p, res, where)
            if n2 is None:
                return res
            if n2 > n:
                res.fail("C18.remove_grew", "%s: logs grew from %d to %d" % (where, n, n2))
            n = n2
            model_abs = []
        else:
            # the list is passed in the order it was generated (not ascending); every level is documented to insert
            # in ascending order, which is what the bookkeeping below assumes
            Lc = []
            for x in op[1]:
                y = x % (n + 6)
                if op[0] == "insert_dup" or y not in Lc:
                    Lc.append(y)
            L = sorted(Lc)
            res.cls("insert_list_not_ascending", Lc != L)
            res.cls("insert_list_with_repeated_step", len(set(L)) != len(L))
            res.cls("insert_step0", 0 in L)
            res.cls("insert_beyond_end", any(x >= n for x in L))
            res.cls("insert_duplicate_of_present", any(x in absence_now for x in L))
            absence_free = not absence_now
            before = S.dump(p) if absence_free else None
            try:
                p.insert_absence_time_list(list(Lc))
            except Exception as e:  # noqa: BLE001
                res.fail("C18.exception", "insert_absence_time_list(%s) raised %s: %s (%d steps)" % (L, type(e).__name__, e, n), sig="insert_" + type(e).__name__)
                return res
            n2 = _lengths(p, res, where + " L=%s" % L)
            if n2 is None:
                return res
            pos = _inserted_positions(n, absence_now, L)
            if n2 - n == len(pos):
                _check_inserted(h, spec, pos, res, where + " L=%s" % L)
                if any(0 < s < n for s in pos):
                    inserted_inside = True
            else:
                res.cls("delta_differs_from_ignore_rule")
                if n2 < n or n2 - n > len(L):
                    res.fail("C18.insert_delta", "%s L=%s: logs went from %d to %d entries" % (where, L, n, n2))
            n = n2
            for x in Lc:  # the registered list grows by the steps that were not registered before (as the library does)
                if x not in model_abs:
                    model_abs.append(x)
            if absence_free and not res.violations:
                # round trip on an absence-free result
                try:
                    p.remove_absence_time_list()
                except Exception as e:  # noqa: BLE001
                    res.fail("C18.exception", "remove after insert(%s) raised %s: %s" % (L, type(e).__name__, e), sig="remove_" + type(e).__name__)
                    return res
                after = S.dump(p)
                roundtrips += 1
                if after != before:
                    diffs = S.diff_dumps(before, after)
                    res.fail("C18.roundtrip", "insert(%s) then remove() on an absence-free result of %d steps does not restore the logs: %s" % (L, len(before["cost"]), "; ".join(diffs[:3])), sig=diffs[0].split(":")[0].strip("/").split("/")[0].split("[")[0] if diffs else "")
                n = _lengths(p, res, where + " (after round trip)")
                if n is None:
                    return res
                model_abs = []
                removed_after_insert = removed_after_insert or inserted_inside
        if res.violations:
            break
    res.stats["ops"] += len(case["ops"])
    res.stats["roundtrips"] += roundtrips
    res.nontrivial = inserted_inside and removed_after_insert
    return res
