"""C01 - task dependencies (FS/SS/FF/SF) are never violated; task lifecycle only advances."""
from .. import gen
from .. import simcheck
from ..core import Result

PID = "C01"
LEVEL = "exploration"
RULE = (
    'One cold-started spec in six is simulated with unit_time 2 or 3 (absence lists in time units, steps and logs indexed by step). '
    'Hypothesis-generated workflows (1-8 tasks, thorough 1-12; every edge drawn from FS/SS/FF/SF; work amounts incl. 0, default progress incl. 1; 0-6 workers in 1-3 teams with skills incl. 0/missing, solo flags, fixed-ID lists, per-worker and project-wide absence lists; all nine task rules; both auto-task flags; thorough adds facilities) simulated once under the step observer. Oracle: invariant over the history of live snapshots (4 per step) and over the state logs: rank never decreases, FS/SS gate at the first non-NONE snapshot, FF/SF gate at the first FINISHED snapshot, log entry == live state modulo the absence display rule. Non-trivial = at least one non-FS edge into a non-exempt task and at least one task whose start or finish was actually held back by a predecessor; distinct by canonical spec hash.'
)
ASSUMPTIONS = [
    "skill standard deviations are 0 (deterministic skills); unit_time=1; task_performed_mode='multi-workers'",
    "generated models respect the implicit preconditions of DESIGN.md section 4 (unique IDs/names, acyclic graph, forest products)",
]
TECHNIQUE = 'property-based testing (Hypothesis): generated workflows, history invariant over live step snapshots and state logs'
LEVEL_TEXT = 'Generated-input search with an invariant oracle over every live snapshot of every step of every generated run; safety direction only (never too early), not a proof.'
LEVEL_NOTE = 'Trusts the guarded step observer (live state at four phases per step) and the spec->model builder; deterministic skills; unit_time=1.'

CFG = gen.Cfg(unit_time=6, warm_modes=["morph", "graft", "append", "nolog", "cutrerun"], warm=3, kinds=[0, 0, 1, 1, 2, 2, 3, 3], facilities=False, max_time=[40, 80], tie_rich=4, max_deps_factor=3,
              min_tasks=2, max_workers=4, abs_max=12)


def strategy(tier):
    cfg = CFG if tier == "quick" else CFG.copy(max_tasks=12, max_workers=8, facilities=True)
    return gen.model_spec(cfg)


def budget(tier):
    if tier == "quick":
        return {"cases": 4000, "shards": 8}
    return {"cases": 150000, "shards": 16}


def check(spec):
    res = Result()
    sim = simcheck.Sim(spec)
    simcheck.check_c01(sim, res)
    return res
