"""C02 - remaining work changes only by the allocated resources' contribution."""
from .. import gen
from .. import simcheck
from ..core import Result

PID = "C02"
LEVEL = "exploration"
RULE = (
    'One cold-started spec in six is simulated with unit_time 2 or 3 (absence lists in time units, steps and logs indexed by step). '
    "Hypothesis-generated models (profiles W and F, multi-worker tasks, solo resources, per-resource and project-wide absences, default progress, zero work amounts, automatic tasks with unit rates 1/4..2; 1 in 5 specs in arbitrary-float mode) simulated once. Oracle per (task, step): remaining[k-1]-remaining[k] equals the reference contribution computed from the allocation snapshot, the spec's skill maps and the absence lists (exact for dyadic values, 1e-9 relative in float mode); unchanged in every other state; FINISHED never before remaining<1e-10, remaining reported 0.0 afterwards, and FINISHED at the next step once remaining is zero and the finish dependencies held at the end of the previous step. Non-trivial = a task that finishes and had a step with >=2 contributors or an absent contributor; distinct by spec hash."
)
ASSUMPTIONS = [
    "skill standard deviations are 0 (deterministic skills); unit_time=1; task_performed_mode='multi-workers'",
    "generated models respect the implicit preconditions of DESIGN.md section 4 (unique IDs/names, acyclic graph, forest products)",
]
TECHNIQUE = 'property-based testing (Hypothesis): generated models, per-step work balance against a reference contribution model'
LEVEL_TEXT = 'Generated-input search: every (task, step) pair of every generated run is balanced against an independent contribution model; not a proof.'
LEVEL_NOTE = "Deterministic skills (sd 0). Allocation at each step is read from the live 'allocated' snapshot (needed to tell a WORKING task from a READY one on project-wide absence steps, where both are logged READY)."

CFG = gen.Cfg(unit_time=6, warm_modes=["morph", "graft", "append", "nolog", "cutrerun"], warm=3, facilities=True, float_mode=5, max_time=[40, 80], abs_p=2, abs_size=6, abs_max=12)


def strategy(tier):
    cfg = CFG if tier == "quick" else CFG.copy(max_tasks=12, max_workers=8, float_mode=3)
    return gen.model_spec(cfg)


def budget(tier):
    if tier == "quick":
        return {"cases": 2000, "shards": 4}
    return {"cases": 150000, "shards": 16}


def check(spec):
    res = Result()
    sim = simcheck.Sim(spec)
    simcheck.check_c02(sim, res)
    return res
