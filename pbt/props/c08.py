"""C08 - every log has one entry per simulated step, equal to that step's live state (history property)."""
from hypothesis import strategies as st

from .. import gen
from .. import spec as S
from ..core import Result
from ..observe import Observer

PID = "C08"
LEVEL = "exploration"
RULE = (
    "Model-based history testing: Hypothesis generates a model spec (profiles W/F/N) and a sequence of 1-6 operations "
    "on ONE project: simulate with all four initialize_state_info/initialize_log_info combinations and generated "
    "options, pause (max_time=k), resume (both flags off), backward_simulate (both settings of "
    "considering_due_time_of_tail_tasks and reverse_log_information), initialize(state_info, log_info), "
    "reverse_log_information(). A reference model of every log is kept by the harness: at each 'recorded' phase the "
    "observer appends the live value of every attribute (with the documented display rule on project-wide absence "
    "steps), initialize(log_info) clears it, log reversal reverses it. Invariant after EVERY operation: all "
    "per-step logs of all objects have one common length N, project.time == N, and every content log equals the "
    "reference model. Non-trivial = a sequence with >= 2 step-producing operations of different kinds, one of them a "
    "resume/continuation or a backward run; distinct by case hash."
)
ASSUMPTIONS = [
    "cost logs have no live attribute: their length is checked here, their content by C07",
    "unit_time=1; deterministic skills",
]
TECHNIQUE = "model-based (stateful) property testing with Hypothesis: generated operation sequences, reference log model fed by the step observer"
LEVEL_TEXT = (
    "Generated operation histories against a reference model of all logs, with the alignment and content invariant "
    "checked after every operation; not a proof."
)
LEVEL_NOTE = "Trusts the guarded step observer (live values at the 'recorded' phase)."

CFG = gen.Cfg(onesided=4, servable=3, facilities=True, max_tasks=6, max_time=[5, 15, 40], abs_max=12, chain_components=True, due=True,
              work_pool=[0.0, 0.5, 1.0, 1.0, 2.0, 3.0])
# nested products only without workplaces here: backward_simulate reverses the dependencies, which turns the
# assembly form around (parent tasks first) and leads into the nested-placement findings D-PLC2..4 of C13
CFG_N = CFG.copy(nested="free", max_wps=0, multi_parent=2)

OPS = ["sim", "sim", "sim_keep_logs", "sim_keep_state", "resume", "pause", "backward", "backward", "initialize", "reverse"]


@st.composite
def _op(draw, cfg):
    kind = draw(st.sampled_from(OPS))
    op = {"op": kind}
    if kind in ("sim", "sim_keep_logs", "sim_keep_state", "resume", "pause", "backward"):
        op["opts"] = draw(gen.options(cfg))
    if kind == "pause":
        op["opts"]["max_time"] = draw(st.integers(0, 12))
    if kind == "backward":
        op["due"] = draw(st.booleans())
        op["rev"] = draw(st.booleans())
        op["flags"] = draw(st.sampled_from([[True, True], [True, True], [False, False], [True, False], [False, True]]))
    if kind == "initialize":
        op["flags"] = [draw(st.booleans()), draw(st.booleans())]
    return op


@st.composite
def _case(draw, cfg):
    spec = draw(gen.model_spec(cfg))
    return {"spec": spec, "ops": draw(st.lists(_op(cfg), min_size=1, max_size=6))}


def strategy(tier):
    if tier == "quick":
        return st.one_of(_case(CFG), _case(CFG), _case(CFG_N))
    big = dict(max_tasks=9)
    return st.one_of(_case(CFG.copy(**big)), _case(CFG.copy(**big)), _case(CFG_N.copy(**big)))


def budget(tier):
    if tier == "quick":
        return {"cases": 3000, "shards": 6}
    return {"cases": 80000, "shards": 16}


class LogModel(object):
    """Reference model of every content log, keyed by (kind:object ID, log name)."""

    def __init__(self):
        self.logs = {}

    def clear(self):
        self.logs = {}

    def reverse(self):
        for k in self.logs:
            self.logs[k] = self.logs[k][::-1]

    def add(self, key, value):
        self.logs.setdefault(key, []).append(value)

    def record(self, project, phase):
        if phase != "recorded":
            return
        working = project.time not in project.absence_time_list
        for t in project.workflow.task_list:
            st_ = int(t.state)
            if not working and st_ == S.WORKING:
                st_ = S.READY
            self.add(("task:" + str(t.ID), "state"), st_)
            self.add(("task:" + str(t.ID), "rem"), t.remaining_work_amount)
            self.add(("task:" + str(t.ID), "aw"), [w.ID for w in t.allocated_worker_list])
            self.add(("task:" + str(t.ID), "af"), [f.ID for f in t.allocated_facility_list])
        for c in project.product.component_list:
            st_ = int(c.state)
            if not working and st_ == S.WORKING:
                st_ = S.READY
            self.add(("comp:" + str(c.ID), "state"), st_)
            self.add(("comp:" + str(c.ID), "placed"), c.placed_workplace.ID if c.placed_workplace is not None else None)
        for tm in project.organization.team_list:
            for w in tm.worker_list:
                self.add(("worker:" + str(w.ID), "state"), int(w.state) if working else S.R_ABSENCE)
                self.add(("worker:" + str(w.ID), "assigned"), [t.ID for t in w.assigned_task_list])
        for wp in project.organization.workplace_list:
            self.add(("wp:" + str(wp.ID), "placed"), [c.ID for c in wp.placed_component_list])
            for f in wp.facility_list:
                self.add(("fac:" + str(f.ID), "state"), int(f.state) if working else S.R_ABSENCE)
                self.add(("fac:" + str(f.ID), "assigned"), [t.ID for t in f.assigned_task_list])


def actual_logs(project):
    out = {}
    for t in project.workflow.task_list:
        out[("task:" + str(t.ID), "state")] = [int(x) for x in t.state_record_list]
        out[("task:" + str(t.ID), "rem")] = list(t.remaining_work_amount_record_list)
        out[("task:" + str(t.ID), "aw")] = [list(x) if x is not None else None for x in t.allocated_worker_id_record]
        out[("task:" + str(t.ID), "af")] = [list(x) if x is not None else None for x in t.allocated_facility_id_record]
    for c in project.product.component_list:
        out[("comp:" + str(c.ID), "state")] = [int(x) for x in c.state_record_list]
        out[("comp:" + str(c.ID), "placed")] = list(c.placed_workplace_id_record)
    for tm in project.organization.team_list:
        for w in tm.worker_list:
            out[("worker:" + str(w.ID), "state")] = [int(x) for x in w.state_record_list]
            out[("worker:" + str(w.ID), "assigned")] = [list(x) if x is not None else None for x in w.assigned_task_id_record]
    for wp in project.organization.workplace_list:
        out[("wp:" + str(wp.ID), "placed")] = [list(x) if x is not None else None for x in wp.placed_component_id_record]
        for f in wp.facility_list:
            out[("fac:" + str(f.ID), "state")] = [int(x) for x in f.state_record_list]
            out[("fac:" + str(f.ID), "assigned")] = [list(x) if x is not None else None for x in f.assigned_task_id_record]
    return out


def check_alignment(project, model, res, where):
    lens = S.all_log_lengths(project)
    n = project.time
    bad = [(lab, ln) for lab, ln in lens if ln != n]
    if bad:
        res.fail(
            "C08.length",
            "%s: project.time=%d but %s" % (where, n, ", ".join("%s has %d" % b for b in bad[:4])),
            sig=bad[0][0].split(".")[-1],
        )
        return False
    act = actual_logs(project)
    for key, log in act.items():
        exp = model.logs.get(key, [])
        if log != exp:
            idx = next((i for i, (a, b) in enumerate(zip(log, exp)) if a != b), min(len(log), len(exp)))
            res.fail(
                "C08.content",
                "%s: log %s of %s differs from the live history at index %d: logged %r, live value was %r"
                % (where, key[1], key[0], idx, log[idx] if idx < len(log) else None, exp[idx] if idx < len(exp) else None),
                sig=key[1],
            )
            return False
    return True


def check(case):
    res = Result()
    spec = case["spec"]
    h = S.build(spec)
    p = h.project
    model = LogModel()
    Observer(phases=(), extra=model.record).install(p)
    kinds = set()
    steps_before = 0
    producing = []
    for i, op in enumerate(case["ops"]):
        kind = op["op"]
        where = "after op %d (%s)" % (i, kind)
        t_before = p.time
        if kind == "sim":
            model.clear()
            S.simulate(p, op["opts"])
        elif kind == "pause":
            model.clear()
            S.simulate(p, op["opts"])
        elif kind == "sim_keep_logs":
            S.simulate(p, op["opts"], initialize_state_info=True, initialize_log_info=False)
        elif kind == "sim_keep_state":
            model.clear()
            S.simulate(p, op["opts"], initialize_state_info=False, initialize_log_info=True)
        elif kind == "resume":
            S.simulate(p, op["opts"], initialize_state_info=False, initialize_log_info=False)
        elif kind == "backward":
            fs, fl = op["flags"]
            if fl:
                model.clear()
            S.backward_simulate(
                p,
                op["opts"],
                initialize_state_info=fs,
                initialize_log_info=fl,
                considering_due_time_of_tail_tasks=op["due"],
                reverse_log_information=op["rev"],
            )
            if op["rev"]:
                model.reverse()
        elif kind == "initialize":
            fs, fl = op["flags"]
            p.initialize(state_info=fs, log_info=fl)
            if fl:
                model.clear()
        elif kind == "reverse":
            p.reverse_log_information()
            model.reverse()
        if kind not in ("initialize", "reverse") and p.time != t_before or kind in ("sim", "pause", "backward"):
            producing.append(kind)
        res.stats["ops"] += 1
        res.cls("op_" + kind)
        if not check_alignment(p, model, res, where):
            break
    Observer.uninstall(p)
    ks = set(producing)
    res.nontrivial = len(producing) >= 2 and len(ks) >= 2 and bool(ks & {"resume", "sim_keep_logs", "backward"})
    return res
