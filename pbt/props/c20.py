"""C20 - a sub-project task lasts exactly as long as the sub-project it stands for."""
import datetime
import math
import warnings
from fractions import Fraction

from hypothesis import strategies as st

from .. import gen
from .. import simcheck
from .. import spec as S
from ..core import Result
from ..observe import T_AF, T_AW, T_STATE

PID = "C20"
LEVEL = "exploration"
RULE = (
    "Hypothesis generates (1) a small sub-project (profile W) simulated (one in four: backward-simulated, logs mirrored) with a generated absence list (incl. steps "
    "beyond its end) and a unit time from {1,2,3,5,10,15,30,60 min, 1 day}, optionally edited by an insert_absence_time_list whose list overlaps the steps already present, written with write_simple_json; also "
    "never-simulated and FINISHED_FAILURE variants; (2) a parent model (profile W, other unit time, parent absence "
    "list, both auto-task flags) in which one task at a generated position (0-2 FS/SS predecessors, any successors) "
    "is a BaseSubProjectTask configured from that file (remove_absence_time_list on/off); one parent in three is written to JSON and read into a new project before it is related to its unit time and simulated. Oracle: default_work_amount "
    "== sub-project duration (minus its absence steps inside the run when asked), unit copied; in the observed "
    "parent run the task performs on exactly ceil(D*u_sub/u_parent) steps (exact Fraction arithmetic), the first of "
    "them the first performing step at which its start dependencies hold, consecutively apart from parent absence "
    "steps, with empty worker/facility lists throughout, and is FINISHED at the next step. Refusal: from a "
    "never-simulated or failed file a warning is issued and every attribute of the task is unchanged. "
    'One case in three configures the same task object first from an older result at the same path, rewrites the file and configures again. '
    'The task object is constructed with either setting of its own remove_absence_time_list flag. '
    "Non-trivial = a successful configuration with D >= 2, unit ratio != 1, and a predecessor or a parent absence "
    "step inside the task's span; distinct by case hash."
)
ASSUMPTIONS = [
    "incoming links of the sub-project task are FS or SS (an FF/SF link may legitimately hold a finished task WORKING)",
    "ceil(D*u_sub/u_parent) <= 400 parent steps",
]
TECHNIQUE = "property-based testing (Hypothesis): generated sub-project results and parent positions, exact rational step-count oracle on the observed parent run"
LEVEL_TEXT = "Generated sub-projects, unit pairs and parent positions against an exact rational step-count oracle; not a proof."
LEVEL_NOTE = "Trusts the step observer for the live state of the sub-project task in the parent run."

UNITS_MIN = [1, 2, 3, 5, 10, 15, 30, 60, 1440]
CFG_SUB = gen.Cfg(facilities=False, max_tasks=4, max_workers=3, max_time=[25], abs_max=30, p_auto=6,
                  work_pool=[0.5, 1.0, 1.0, 2.0, 3.0], progress=False)
CFG_PARENT = gen.Cfg(servable=3, facilities=False, min_tasks=2, max_tasks=5, max_workers=3, max_time=[40], abs_max=25, p_auto=8,
                     work_pool=[0.0, 0.5, 1.0, 2.0, 3.0], kinds=[0, 0, 1, 2, 3])


@st.composite
def _case(draw):
    sub = draw(gen.model_spec(CFG_SUB))
    # make the sub-project feasible most of the time: one worker that can do everything
    n = len(sub["tasks"])
    sub["teams"][0]["targets"] = list(range(n))
    sub["workers"].append({"team": 0, "cost": 1.0, "solo": False, "skills": {str(i): 1.0 for i in range(n)}, "fsk": {}, "abs": [], "mw": None})
    for t in sub["tasks"]:
        t["fixw"] = None
    sub["opts"]["abs"] = draw(st.lists(st.integers(0, 30), unique=True, max_size=5))
    stage = draw(st.sampled_from(["ok", "ok", "ok", "ok", "never", "failure"]))
    # the result may come from a backward simulation (logs and absence steps mirrored into forward time before saving)
    backward = stage == "ok" and draw(st.integers(0, 3)) == 0
    parent = draw(gen.model_spec(CFG_PARENT))
    k = draw(st.integers(0, len(parent["tasks"]) - 1))
    if k > 0 and draw(st.integers(0, 2)) > 0:
        e = [draw(st.integers(0, k - 1)), k, draw(st.sampled_from([0, 0, 1]))]
        if e not in parent["deps"]:
            parent["deps"].append(e)
    u_sub = draw(st.sampled_from(UNITS_MIN))
    u_par = draw(st.sampled_from(UNITS_MIN))
    insert = draw(st.one_of(st.none(), st.none(), st.lists(st.integers(0, 12), min_size=1, max_size=4)))
    if insert is not None:
        # an edited result: keep the run's own absence steps early, so that they lie inside the run
        sub["opts"]["abs"] = draw(st.lists(st.integers(0, 4), unique=True, min_size=1, max_size=3))
    return {
        "sub": sub,
        "stage": stage,
        "parent": parent,
        "k": k,
        "u_sub": u_sub,
        "u_par": u_par,
        "rm_abs": draw(st.booleans()),
        "backward": backward,
        "via_json": draw(st.integers(0, 2)) == 0,
        "reconfigure": draw(st.integers(0, 2)) == 0,
        "ctor_rm": draw(st.booleans()),
        # the saved result may have been edited first: insert_absence_time_list(B), B overlapping the steps already present
        "insert": insert,
    }


def strategy(tier):
    return _case()


def budget(tier):
    if tier == "quick":
        return {"cases": 2000, "shards": 6}
    return {"cases": 60000, "shards": 16}


ATTRS = ["default_work_amount", "unit_timedelta", "work_amount_progress_of_unit_step_time", "remove_absence_time_list",
         "file_path", "name", "ID", "auto_task", "default_progress", "remaining_work_amount", "state"]


def check(case):
    import copy

    res = Result()
    case = copy.deepcopy(case)
    sub = case["sub"]
    stage = case["stage"]
    res.cls("stage_" + stage)
    hs = S.build(sub)
    ps = hs.project
    ps.unit_timedelta = datetime.timedelta(minutes=case["u_sub"])
    if stage == "ok" and case.get("backward"):
        S.backward_simulate(ps, dict(sub["opts"], max_time=200))
        res.cls("sub_result_from_backward_run")
        case["insert"] = None
    elif stage == "ok":
        S.simulate(ps, dict(sub["opts"], max_time=200))
    elif stage == "failure":
        S.simulate(ps, dict(sub["opts"], max_time=1))
    extra_abs = []
    n_run = len(ps.cost_list)
    if stage == "ok" and case.get("insert") and int(ps.status) == 1 and all(a < n_run for a in sub["opts"]["abs"]):
        # (a result whose absence list names steps beyond its end is not edited here: pDESy does not shift absence
        # indices on insert, so such an entry would start to point at a real step - outside what C20 states)
        n0 = len(ps.cost_list)
        present = list(ps.absence_time_list)
        B = sorted(set(case["insert"]) | set(present[:1]))  # always overlaps a step that is already present
        ps.insert_absence_time_list(list(B))
        res.cls("sub_result_edited_by_insert")
        extra_abs = [b for b in B if b not in present]
    path = S.tmp_path("c20_sub.json")
    ps.write_simple_json(path)
    status = int(ps.status)

    # parent model with the sub-project task at position k
    parent = case["parent"]
    k = case["k"]
    pt = parent["tasks"][k]
    # (the task object may have been constructed with the other setting of its own remove_absence_time_list flag)
    pt.update({"auto": True, "comp": None, "nf": False, "sub": {"unit_s": 60, "rm_abs": bool(case.get("ctor_rm"))}, "prog": 0.0, "rate": 1.0, "fixw": None})
    parent["deps"] = [[a, b, (kind if kind in (S.FS, S.SS) else S.FS) if b == k else kind] for a, b, kind in parent["deps"]]
    hp = S.build(parent)
    pp = hp.project
    pp.unit_timedelta = datetime.timedelta(minutes=case["u_par"])
    task = hp.tasks[k]
    if case.get("reconfigure") and status == 1:
        # what-if loop: the same task object was configured before, from an older result at the same path (other
        # duration, other unit); the file has been rewritten since and the task is configured again
        hold = S.build(sub)
        hold.project.unit_timedelta = datetime.timedelta(minutes=case["u_sub"] + 7)
        S.simulate(hold.project, dict(sub["opts"], abs=sorted(set(sub["opts"]["abs"]) ^ set([0, 1, 2])), max_time=200))
        hold.project.write_simple_json(path)
        with warnings.catch_warnings():
            warnings.simplefilter("ignore")
            task.set_all_attributes_from_json(path, remove_absence_time_list=case["rm_abs"])
        ps.write_simple_json(path)
        res.cls("task_configured_before_from_older_file")
    before = {a: getattr(task, a) for a in ATTRS}
    before["read_json_file"] = getattr(task, "read_json_file", "<missing>")
    with warnings.catch_warnings(record=True) as wlist:
        warnings.simplefilter("always")
        task.set_all_attributes_from_json(path, remove_absence_time_list=case["rm_abs"])
    if status != 1:
        # refusal
        if not wlist:
            res.fail("C20.no_warning", "configuring from a project with status %d issued no warning" % status, sig=stage)
        after = {a: getattr(task, a) for a in ATTRS}
        after["read_json_file"] = getattr(task, "read_json_file", "<missing>")
        for a in before:
            if before[a] != after[a]:
                res.fail("C20.refusal_changed_task", "configuring from a project with status %d changed %s from %r to %r" % (status, a, before[a], after[a]), sig=a)
        res.nontrivial = False
        res.stats["refusals"] += 1
        return res

    n_sub = len(ps.cost_list)
    # absence steps inside the saved result: those of the run itself plus the inserted ones
    inside = sum(1 for a in set(sub["opts"]["abs"]) if a < n_run) + (n_sub - n_run)
    D = n_sub - inside if case["rm_abs"] else n_sub
    res.cls("sub_absence_inside", inside > 0)
    res.cls("sub_absence_beyond_end", any(a >= n_sub for a in sub["opts"]["abs"]))
    res.cls("remove_absence_flag", case["rm_abs"])
    if task.default_work_amount != D:
        res.fail("C20.work_amount", "sub-project ran %d steps (%d absence steps inside, remove=%s) but default_work_amount=%r" % (n_sub, inside, case["rm_abs"], task.default_work_amount), sig="rm" if case["rm_abs"] else "keep")
    if task.unit_timedelta != ps.unit_timedelta:
        res.fail("C20.unit", "unit_timedelta %r, sub-project's %r" % (task.unit_timedelta, ps.unit_timedelta))
    if res.violations:
        return res
    need = Fraction(D * case["u_sub"], case["u_par"])
    n_steps = int(math.ceil(need))
    if n_steps > 400:
        res.excluded["span_over_400_steps"] += 1
        return res
    if case.get("via_json"):
        # the configured parent is saved and loaded before it is related to its unit time and simulated
        path2 = S.tmp_path("c20_parent.json")
        pp.write_simple_json(path2)
        p2 = S.BaseProject()
        p2.read_simple_json(path2)
        task = [x for x in p2.workflow.task_list if x.ID == task.ID][0]
        hp.project = pp = p2
        res.cls("parent_saved_and_loaded")
    task.set_work_amount_progress_of_unit_step_time(pp.unit_timedelta)
    opts = dict(parent["opts"], max_time=n_steps + 120)
    parent["opts"] = opts
    sim = _observed(parent, hp, opts)
    t_id = task.ID
    flag = bool(opts.get("auto_abs"))
    performing = []  # steps at which the task is live WORKING and performed
    first_ready_step = None
    pred_id = {i: t.ID for i, t in enumerate(hp.tasks)}  # (IDs survive the JSON route)
    for s, d in enumerate(sim["steps"]):
        upd, alloc = d.get("updated"), d.get("allocated")
        if alloc is None:
            continue
        can_perform = (s not in sim["absn"]) or flag
        tt = alloc["tasks"][t_id]
        if tt[T_AW] or tt[T_AF]:
            res.fail("C20.has_workers", "sub-project task holds %s %s at step %d" % (list(tt[T_AW]), list(tt[T_AF]), s))
        if first_ready_step is None and can_perform and upd["tasks"][t_id][T_STATE] != S.NONE:
            first_ready_step = s
        # "starting as soon as its dependencies allow", judged on the predecessors themselves: every FS predecessor
        # FINISHED and every SS predecessor started (WORKING or FINISHED) after the update of this step
        if upd["tasks"][t_id][T_STATE] == S.NONE and all(
            (upd["tasks"][pred_id[a]][T_STATE] == S.FINISHED) if kind == S.FS else (upd["tasks"][pred_id[a]][T_STATE] in (S.WORKING, S.FINISHED))
            for a, b, kind in parent["deps"]
            if b == k
        ):
            res.fail("C20.start_not_allowed", "step %d: every predecessor of the sub-project task has finished (FS) / started (SS) but the task is still NONE" % s, sig="ss" if any(b == k and kind == S.SS for a, b, kind in parent["deps"]) else "fs")
            break
        if tt[T_STATE] == S.WORKING and can_perform:
            performing.append(s)
    finished = int(task.state) == S.FINISHED
    if not finished:
        # dependencies never satisfied within the run (predecessor starved): nothing to say
        res.cls("sub_task_never_finished")
        if performing and len(performing) > n_steps:
            res.fail("C20.too_long", "task performed on %d steps, expected %d" % (len(performing), n_steps))
        return res
    if len(performing) != max(n_steps, 1):
        res.fail(
            "C20.step_count",
            "D=%d, u_sub=%d min, u_parent=%d min: expected ceil(%s)=%d performing steps, observed %d (%s)" % (D, case["u_sub"], case["u_par"], need, max(n_steps, 1), len(performing), performing[:12]),
            sig="more" if len(performing) > n_steps else "fewer",
        )
    if performing and first_ready_step is not None and performing[0] != first_ready_step:
        res.fail("C20.late_start", "dependencies allowed a start at step %d but the task first performed at step %d" % (first_ready_step, performing[0]))
    # consecutive apart from non-performing (absence) steps
    if performing:
        for s in range(performing[0], performing[-1] + 1):
            can_perform = (s not in sim["absn"]) or flag
            if can_perform and s not in performing:
                res.fail("C20.gap", "task did not perform at step %d inside its span %d..%d" % (s, performing[0], performing[-1]))
                break
    span_abs = performing and any(a in sim["absn"] for a in range(performing[0], performing[-1] + 1))
    has_pred = any(b == k for a, b, kind in parent["deps"])
    res.cls("parent_absence_inside_span", bool(span_abs))
    res.cls("has_predecessor", has_pred)
    res.cls("unit_ratio_not_1", case["u_sub"] != case["u_par"])
    res.nontrivial = D >= 2 and case["u_sub"] != case["u_par"] and (has_pred or bool(span_abs))
    res.stats["parent_runs"] += 1
    return res


def _observed(parent, hp, opts):
    from ..observe import Observer

    obs = Observer(phases=("updated", "allocated")).install(hp.project)
    S.simulate(hp.project, opts)
    Observer.uninstall(hp.project)
    return {"steps": obs.steps, "absn": set(opts.get("abs", []))}
