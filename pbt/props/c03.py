"""C03 - resource allocation is exclusive and two-way consistent at every step."""
from hypothesis import strategies as st

from .. import gen
from .. import simcheck
from ..core import Result

PID = "C03"
LEVEL = "exploration"
RULE = (
    "One spec in three has lived before (warm start): another model edited in place into this one or swapped into the old project object, or the model's own run cut short by max_time and then continued with one of the unequal initialize-flag combinations (state carried over and logs restarted, or state reset and logs appended), or a first run that does not initialize the logs. A 'pinned' profile makes several facility tasks insist on the same facility (fixed facility-ID lists, some with fixed worker-ID lists too). "
    'One cold-started spec in six is simulated with unit_time 2 or 3 (absence lists in time units, steps and logs indexed by step). '
    'Hypothesis-generated contention-rich models (2-8 tasks, 0-4 workers, facilities, solo flags, fixed-ID lists, absences, all rules) simulated once under the observer. Oracle at the updated/allocated/recorded snapshots of every step and again on the logs: <=1 task per worker/facility, task-side lists == resource-side lists, holders READY/WORKING, resource WORKING <=> holds a task and not absent, FINISHED tasks hold nothing and are listed by nobody. Non-trivial = some step where a newly taken worker was also eligible for another READY/WORKING task, or a worker-facility pair was allocated; distinct by spec hash.'
)
ASSUMPTIONS = [
    "skill standard deviations are 0 (deterministic skills); unit_time=1; task_performed_mode='multi-workers'",
    "generated models respect the implicit preconditions of DESIGN.md section 4 (unique IDs/names, acyclic graph, forest products)",
]
TECHNIQUE = 'property-based testing (Hypothesis): generated contention-rich models, allocation invariants over live snapshots and logs'
LEVEL_TEXT = 'Generated-input search with invariant oracles over three live snapshots per step plus the logs; not a proof.'
LEVEL_NOTE = "Trusts the step observer and the builder; absence of a resource is taken from the spec's absence lists."

CFG = gen.Cfg(unit_time=6, warm_modes=["morph", "graft", "carry", "append", "nolog", "cutrerun"], warm=3, onesided=4, facilities=True, max_workers=4, min_tasks=2, max_time=[40, 80], p_auto=12, abs_p=2, abs_size=6, abs_max=12,
              work_pool=[0.0, 0.5, 1.0, 1.0, 2.0, 2.0, 3.0, 4.0])


# "pinned": many facility tasks name the facilities (and workers) they may use, few facilities: several tasks
# want the same one in the same step
CFG_PIN = CFG.copy(p_fix=2, max_wps=2, max_facs_per_wp=2, max_comps=3, min_tasks=3, onesided=0)


def strategy(tier):
    cfg = CFG if tier == "quick" else CFG.copy(max_tasks=12, max_workers=6)
    pin = CFG_PIN if tier == "quick" else CFG_PIN.copy(max_tasks=12, max_workers=6)
    return st.one_of(gen.model_spec(cfg), gen.model_spec(cfg), gen.pinned_spec(pin))


def budget(tier):
    if tier == "quick":
        return {"cases": 4000, "shards": 8}
    return {"cases": 150000, "shards": 16}


def check(spec):
    res = Result()
    sim = simcheck.Sim(spec)
    simcheck.check_c03(sim, res)
    return res
