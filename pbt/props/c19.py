"""C19 - Gantt data, state queries and dates report exactly what the logs contain."""
import datetime
import itertools
import os
import subprocess
import sys
import time

from hypothesis import strategies as st

from .. import spec as S
from ..core import Result

PID = "C19"
LEVEL = "exploration"
RULE = (
    "Hypothesis-generated ARBITRARY state sequences (length 0-40, not only those a simulation can produce) over the "
    "four task/component states and the three worker/facility states, finish margins (0, 1/2, 1, 2 and floats), "
    "time lists (empty, repeated, beyond the end), init dates (naive dates on both sides of the daylight-saving "
    "switches of the harness's local zone, and aware dates of other zones) and unit lengths (1 s .. 1 day). Oracles: "
    "get_time_list_for_gannt_chart == reference run-length encoding (maximal runs -> (start, len-1+margin)) for "
    "READY/WORKING (tasks, components) and FREE/WORKING/ABSENCE (workers, facilities); create_data_for_gantt_plotly "
    "rows == rows derived from the reference runs (Start=init+start*unit, Finish=init+(start+length)*unit) for "
    "task, component, workflow, product, team, workplace, organization; extract_*_list == objects (by identity) whose log shows "
    "the state at all requested times; set_last_datetime: init+(time-1)*unit == date. The quick and thorough tiers "
    "also enumerate EVERY sequence of length <= 6 (thorough <= 8) for the four encoders; thorough adds an "
    'One case in four gives every object of a kind the same (default) name. '
    "atheris (libFuzzer) campaign on the encoders with the same oracle inside the target. Non-trivial = a "
    "sequence with at least 3 state changes; distinct by case hash."
)
ASSUMPTIONS = ["WORKING_ADDITIONALLY never occurs in logs (no code path sets it)"]
TECHNIQUE = "property-based testing (Hypothesis) + exhaustive enumeration of short sequences + atheris fuzzing; reference run-length encoder"
LEVEL_TEXT = (
    "Generated arbitrary state logs against an independent run-length encoder and direct log queries; all sequences "
    "up to length 6/8 are enumerated exhaustively, longer ones sampled; not a proof for unbounded length."
)
LEVEL_NOTE = "Pure functions of the logs; no simulation involved."

# The dates of the chart rows are plain datetime arithmetic and must not depend on the machine's time zone. The
# harness therefore runs in a zone WITH daylight-saving switches (POSIX rule string, no tz database needed) and
# generates naive dates on both sides of the switches as well as aware dates of other zones: anything that goes
# through local time (timestamp()/fromtimestamp()) then shows.
os.environ["TZ"] = "EST5EDT,M3.2.0,M11.1.0"
if hasattr(time, "tzset"):
    time.tzset()
BASES = [(2020, 1, 1), (2020, 3, 6), (2020, 10, 30)]  # + up to 11.5 days: the 2020 switches are Mar 8 and Nov 1
TZ_HOURS = [None, None, 9, -5, 0]

T_STATES = [0, 1, 2, -1]
R_STATES = [0, 1, -1]
MARGINS = [0.0, 0.5, 1.0, 1.0, 2.0]


def runs(seq, state):
    out = []
    i = 0
    n = len(seq)
    while i < n:
        if seq[i] == state:
            j = i
            while j + 1 < n and seq[j + 1] == state:
                j += 1
            out.append((i, j - i + 1))
            i = j + 1
        else:
            i += 1
    return out


def ref_intervals(seq, state, margin):
    return [(s, (ln - 1) + margin) for s, ln in runs(seq, state)]


def fmt(dt):
    return dt.strftime("%Y-%m-%d %H:%M:%S")


def ref_rows(name, seq, state, label, margin, init, unit):
    rows = []
    for s, ln in ref_intervals(seq, state, margin):
        rows.append((name, fmt(init + s * unit), fmt(init + (s + ln) * unit), label))
    return rows


def rows_of(df):
    return sorted((d["Task"], d["Start"], d["Finish"], d["State"]) for d in df)


def mk_task(i, seq, same_name=False):
    return S.BaseTask("New Task" if same_name else "T" + str(i), ID="t" + str(i), state_record_list=[S.BaseTaskState(v) for v in seq])


def mk_comp(i, seq, same_name=False):
    return S.BaseComponent("New Component" if same_name else "C" + str(i), ID="c" + str(i), state_record_list=[S.BaseComponentState(v) for v in seq])


def _members(seq, own, other, mix):
    """State objects of a worker/facility log. mix: every third entry is the equal-valued member of the sister enum
    (BaseWorkerState in a facility log and vice versa), as append_project_log_from_simple_json produces them."""
    return [(other if (mix and j % 3 == 1) else own)(v) for j, v in enumerate(seq)]


def mk_worker(i, seq, mix=False, same_name=False):
    return S.BaseWorker("New Worker" if same_name else "W" + str(i), ID="w" + str(i), state_record_list=_members(seq, S.BaseWorkerState, S.BaseFacilityState, mix))


def mk_fac(i, seq, mix=False, same_name=False):
    return S.BaseFacility("New Facility" if same_name else "F" + str(i), ID="f" + str(i), state_record_list=_members(seq, S.BaseFacilityState, S.BaseWorkerState, mix))


def check_encoder(kind, seq, margin, res, mix=False):
    """one encoder against the reference; returns True if ok."""
    if kind in ("task", "comp"):
        obj = mk_task(0, seq) if kind == "task" else mk_comp(0, seq)
        got = obj.get_time_list_for_gannt_chart(finish_margin=margin)
        exp = (ref_intervals(seq, 1, margin), ref_intervals(seq, 2, margin))
        names = ("ready", "working")
    else:
        obj = mk_worker(0, seq, mix) if kind == "worker" else mk_fac(0, seq, mix)
        got = obj.get_time_list_for_gannt_chart(finish_margin=margin)
        exp = (ref_intervals(seq, 0, margin), ref_intervals(seq, 1, margin), ref_intervals(seq, -1, margin))
        names = ("ready", "working", "absence")
    ok = True
    if len(got) != len(exp):
        res.fail("C19.encoder_shape", "%s encoder returned %d lists" % (kind, len(got)), sig=kind)
        return False
    for nm, g, e in zip(names, got, exp):
        if [tuple(x) for x in g] != e:
            res.fail("C19.encoder", "%s %s intervals for %s (margin %r): got %s, maximal runs give %s" % (kind, nm, seq, margin, list(g), e), sig=kind + "_" + nm)
            ok = False
    return ok


@st.composite
def _case(draw, max_len):
    tseqs = draw(st.lists(st.lists(st.sampled_from(T_STATES), max_size=max_len), min_size=1, max_size=4))
    rseqs = draw(st.lists(st.lists(st.sampled_from(R_STATES), max_size=max_len), min_size=1, max_size=4))
    margin = draw(st.one_of(st.sampled_from(MARGINS), st.floats(0.0, 5.0, allow_nan=False)))
    unit_s = draw(st.sampled_from([1, 60, 60, 600, 3600, 86400, 90]))
    init_off = draw(st.integers(0, 10 ** 6))
    times = draw(st.lists(st.integers(0, max_len + 3), max_size=5))
    return {
        "tseqs": tseqs,
        "rseqs": rseqs,
        "margin": margin,
        "unit_s": unit_s,
        "init_off": init_off,
        "times": times,
        "ptime": draw(st.integers(0, 500)),
        "last_off": draw(st.integers(0, 10 ** 7)),
        "mix": draw(st.integers(0, 3)) == 0,
        "same_names": draw(st.integers(0, 3)) == 0,
        "base": draw(st.integers(0, len(BASES) - 1)),
        "tz": draw(st.sampled_from(TZ_HOURS)),
    }


def strategy(tier):
    return _case(40 if tier == "quick" else 60)


def budget(tier):
    if tier == "quick":
        return {"cases": 3000, "shards": 4}
    return {"cases": 200000, "shards": 16}


def changes(seq):
    return sum(1 for a, b in zip(seq, seq[1:]) if a != b)


def check(case):
    res = Result()
    margin = case["margin"]
    unit = datetime.timedelta(seconds=case["unit_s"])
    tz = datetime.timezone(datetime.timedelta(hours=case["tz"])) if case.get("tz") is not None else None
    init = datetime.datetime(*BASES[case.get("base", 0)], tzinfo=tz) + datetime.timedelta(seconds=case["init_off"])
    res.cls("aware_dates", tz is not None)
    res.cls("across_dst_switch", tz is None and case.get("base", 0) > 0)
    times = case["times"]
    tseqs, rseqs = case["tseqs"], case["rseqs"]
    res.nontrivial = any(changes(s) >= 3 for s in tseqs + rseqs)
    res.cls("empty_sequence", any(len(s) == 0 for s in tseqs + rseqs))
    res.cls("times_beyond_end", any(t >= len(s) for t in times for s in tseqs + rseqs))
    res.cls("float_margin", margin not in MARGINS)

    # 1. encoders
    for seq in tseqs:
        check_encoder("task", seq, margin, res)
        check_encoder("comp", seq, margin, res)
    for seq in rseqs:
        check_encoder("worker", seq, margin, res, mix=bool(case.get("mix")))
        check_encoder("fac", seq, margin, res, mix=bool(case.get("mix")))

    # 2. chart rows
    same = bool(case.get("same_names"))  # every object of a kind carries the default name of that kind
    res.cls("objects_share_their_name", same)
    tasks = [mk_task(i, s, same) for i, s in enumerate(tseqs)]
    comps = [mk_comp(i, s, same) for i, s in enumerate(tseqs)]
    for view_ready in (False, True):
        for kind, objs, typ in (("task", tasks, "Task"), ("component", comps, "Component")):
            for o, seq in zip(objs, tseqs):
                df = o.create_data_for_gantt_plotly(init, unit, finish_margin=margin, view_ready=view_ready)
                exp = ref_rows(o.name, seq, 2, "WORKING", margin, init, unit)
                if view_ready:
                    exp += ref_rows(o.name, seq, 1, "READY", margin, init, unit)
                if rows_of(df) != sorted(exp):
                    res.fail("C19.rows", "%s rows for %s (view_ready=%s, margin %r, unit %ss): %s, expected %s" % (kind, seq, view_ready, margin, case["unit_s"], rows_of(df), sorted(exp)), sig=kind)
                if any(d.get("Type") != typ for d in df):
                    res.fail("C19.rows_type", "%s rows carry Type %s" % (kind, set(d.get("Type") for d in df)), sig=kind)
        wf = S.BaseWorkflow(tasks)
        df = wf.create_data_for_gantt_plotly(init, unit, finish_margin=margin, view_ready=view_ready)
        exp = []
        for o, seq in zip(tasks, tseqs):
            exp += ref_rows(o.name, seq, 2, "WORKING", margin, init, unit)
            if view_ready:
                exp += ref_rows(o.name, seq, 1, "READY", margin, init, unit)
        if rows_of(df) != sorted(exp):
            res.fail("C19.rows", "workflow rows differ (view_ready=%s): %s vs %s" % (view_ready, rows_of(df), sorted(exp)), sig="workflow")
        pr = S.BaseProduct(comps)
        df = pr.create_data_for_gantt_plotly(init, unit, finish_margin=margin, view_ready=view_ready)
        exp = []
        for o, seq in zip(comps, tseqs):
            exp += ref_rows(o.name, seq, 2, "WORKING", margin, init, unit)
            if view_ready:
                exp += ref_rows(o.name, seq, 1, "READY", margin, init, unit)
        if rows_of(df) != sorted(exp):
            res.fail("C19.rows", "product rows differ (view_ready=%s): %s vs %s" % (view_ready, rows_of(df), sorted(exp)), sig="product")
    workers = [mk_worker(i, s, bool(case.get("mix")), same) for i, s in enumerate(rseqs)]
    facs = [mk_fac(i, s, bool(case.get("mix")), same) for i, s in enumerate(rseqs)]
    res.cls("mixed_enum_members", bool(case.get("mix")))
    team = S.BaseTeam("TM", ID="tm", worker_list=workers)
    wp = S.BaseWorkplace("WP", ID="wp", facility_list=facs)
    for view_ready, view_absence in itertools.product((False, True), (False, True)):
        for kind, grp, objs in (("team", team, workers), ("workplace", wp, facs)):
            df = grp.create_data_for_gantt_plotly(init, unit, finish_margin=margin, view_ready=view_ready, view_absence=view_absence)
            exp = []
            for o, seq in zip(objs, rseqs):
                nm = grp.name + ": " + o.name
                exp += ref_rows(nm, seq, 1, "WORKING", margin, init, unit)
                if view_ready:
                    exp += ref_rows(nm, seq, 0, "READY", margin, init, unit)
                if view_absence:
                    exp += ref_rows(nm, seq, -1, "ABSENCE", margin, init, unit)
            if rows_of(df) != sorted(exp):
                res.fail("C19.rows", "%s rows differ (view_ready=%s view_absence=%s) for %s: %s vs %s" % (kind, view_ready, view_absence, rseqs, rows_of(df), sorted(exp)), sig=kind)
        # organization level = team rows + workplace rows
        org = S.BaseOrganization(team_list=[team], workplace_list=[wp])
        df = org.create_data_for_gantt_plotly(init, unit, finish_margin=margin, view_ready=view_ready, view_absence=view_absence)
        both = team.create_data_for_gantt_plotly(init, unit, finish_margin=margin, view_ready=view_ready, view_absence=view_absence) + wp.create_data_for_gantt_plotly(
            init, unit, finish_margin=margin, view_ready=view_ready, view_absence=view_absence
        )
        if rows_of(df) != rows_of(both):
            res.fail("C19.rows", "organization rows are not the union of its team and workplace rows (view_ready=%s view_absence=%s)" % (view_ready, view_absence), sig="organization")

    # 3. extract_*_list
    def expect(objs, seqs, state):
        return sorted(id(o) for o, s in zip(objs, seqs) if all(t < len(s) and s[t] == state for t in times))

    wf = S.BaseWorkflow(tasks)
    pr = S.BaseProduct(comps)
    for state, tf, cf in (
        (0, wf.extract_none_task_list, pr.extract_none_component_list),
        (1, wf.extract_ready_task_list, pr.extract_ready_component_list),
        (2, wf.extract_working_task_list, pr.extract_working_component_list),
        (-1, wf.extract_finished_task_list, pr.extract_finished_component_list),
    ):
        got = sorted(id(o) for o in tf(times))
        if got != expect(tasks, tseqs, state):
            res.fail("C19.extract", "extract task list state %d times %s on %s: %d objects, expected %d" % (state, times, tseqs, len(got), len(expect(tasks, tseqs, state))), sig="task")
        got = sorted(id(o) for o in cf(times))
        if got != expect(comps, tseqs, state):
            res.fail("C19.extract", "extract component list state %d times %s on %s: %d objects, expected %d" % (state, times, tseqs, len(got), len(expect(comps, tseqs, state))), sig="component")
    for state, wfun, ffun in (
        (0, team.extract_free_worker_list, wp.extract_free_facility_list),
        (1, team.extract_working_worker_list, wp.extract_working_facility_list),
    ):
        got = sorted(id(o) for o in wfun(times))
        if got != expect(workers, rseqs, state):
            res.fail("C19.extract", "extract worker list state %d times %s on %s: %d objects, expected %d" % (state, times, rseqs, len(got), len(expect(workers, rseqs, state))), sig="worker")
        got = sorted(id(o) for o in ffun(times))
        if got != expect(facs, rseqs, state):
            res.fail("C19.extract", "extract facility list state %d times %s on %s: %d objects, expected %d" % (state, times, rseqs, len(got), len(expect(facs, rseqs, state))), sig="facility")

    # 4. set_last_datetime
    p = S.BaseProject(init_datetime=init, unit_timedelta=unit)
    p.time = case["ptime"]
    last = datetime.datetime(2021, 6, 1, tzinfo=tz) + datetime.timedelta(seconds=case["last_off"])
    r = p.set_last_datetime(last, set_init_datetime=False)
    if p.init_datetime != init:
        res.fail("C19.set_last_datetime", "set_init_datetime=False changed init_datetime", sig="noset")
    if r + (p.time - 1) * unit != last:
        res.fail("C19.set_last_datetime", "returned init %s + (time-1)*unit != %s" % (r, last), sig="value")
    # ... on a project that was really simulated and edited: "the last simulated step" is the last entry of the logs
    if times:
        spec3 = {
            "tasks": [{"work": 3.0, "prog": 0.0, "auto": False, "nf": False, "comp": None, "wpr": 0, "wr": -1, "fr": 0, "fixw": None, "fixf": None, "due": -1, "rate": 1.0}],
            "deps": [], "order": [0], "comps": [], "teams": [{"targets": [0]}],
            "workers": [{"team": 0, "cost": 1.0, "solo": False, "skills": {"0": 1.0}, "fsk": {}, "abs": [], "mw": None}], "wps": [], "facs": [],
        }
        h3 = S.build(spec3)
        S.simulate(h3.project, {"rule": 0, "abs": sorted(set(times)), "auto_abs": False, "max_time": 100})
        if case.get("mix"):
            h3.project.remove_absence_time_list()
        h3.project.init_datetime, h3.project.unit_timedelta = init, unit
        r3 = h3.project.set_last_datetime(last)
        n3 = len(h3.project.cost_list)
        if n3 and r3 + (n3 - 1) * unit != last:
            res.fail("C19.set_last_datetime", "simulated project of %d steps (absence steps %s%s): start %s puts the last step on %s, not on %s" % (n3, sorted(set(times)), ", removed" if case.get("mix") else "", r3, r3 + (n3 - 1) * unit, last), sig="simulated")
    # the query form with a unit of its own: the returned start date is for THAT unit
    unit3 = datetime.timedelta(seconds=case["unit_s"] * 3 + 7)
    r = p.set_last_datetime(last, unit_timedelta=unit3, set_init_datetime=False)
    if p.init_datetime != init:
        res.fail("C19.set_last_datetime", "set_init_datetime=False (with a unit) changed init_datetime", sig="noset")
    if r + (p.time - 1) * unit3 != last:
        res.fail("C19.set_last_datetime", "query with unit %s: returned init %s + (time-1)*unit != %s" % (unit3, r, last), sig="value_unit")
    unit2 = datetime.timedelta(seconds=case["unit_s"] * 2)
    r = p.set_last_datetime(last, unit_timedelta=unit2)
    if p.init_datetime != r or p.unit_timedelta != unit2 or p.init_datetime + (p.time - 1) * p.unit_timedelta != last:
        res.fail("C19.set_last_datetime", "after set_last_datetime(%s, unit=%s): init %s, unit %s, time %d" % (last, unit2, p.init_datetime, p.unit_timedelta, p.time), sig="set")
    return res


# ---------------------------------------------------------------------------------------------
# exhaustive sub-domain + atheris campaign
# ---------------------------------------------------------------------------------------------
def _enumerate(maxlen):
    res = Result()
    n = 0
    for kind, states in (("task", T_STATES), ("comp", T_STATES), ("worker", R_STATES), ("fac", R_STATES)):
        for ln in range(0, maxlen + 1):
            for seq in itertools.product(states, repeat=ln):
                n += 1
                check_encoder(kind, list(seq), 1.0, res)
                if len(res.violations) > 3:
                    return n, res
    return n, res


def extra(tier, seed):
    maxlen = 6 if tier == "quick" else 8
    n, res = _enumerate(maxlen)
    failures = [
        {"bucket": v.bucket + "|exhaustive", "clause": v.clause, "detail": v.detail, "case": {"exhaustive": True, "detail": v.detail}}
        for v in res.violations[:2]
    ]
    cov = {"exhaustive_sequences_up_to_length": maxlen, "exhaustive_encoder_evaluations": n}
    out = {"evals": n, "nt": set(), "failures": failures, "stats": {"exhaustive_encoder_evaluations": n}, "coverage": cov}
    if tier == "thorough":
        out["coverage"].update(run_atheris(seed, 300000))
        if out["coverage"].get("atheris_crash"):
            failures.append({"bucket": "C19.encoder|atheris", "clause": "C19.encoder", "detail": out["coverage"]["atheris_crash"], "case": {"atheris": out["coverage"].get("atheris_input")}})
    return out


def run_atheris(seed, runs):
    verif = os.path.dirname(os.path.dirname(os.path.dirname(os.path.abspath(__file__))))
    target = os.path.join(verif, "pbt", "fuzz", "fuzz_encoders.py")
    import shutil
    import tempfile

    tmp = tempfile.mkdtemp(prefix="c19_fuzz_")
    os.makedirs(os.path.join(tmp, "corpus"))
    try:
        env = dict(os.environ)
        env["PYTHONPATH"] = os.path.join(verif, ".deps") + os.pathsep + verif + os.pathsep + env.get("PYTHONPATH", "")
        r = subprocess.run(
            [sys.executable, target, "-runs=%d" % runs, "-seed=%d" % max(1, seed), "-max_len=64", "-artifact_prefix=" + tmp + os.sep, os.path.join(tmp, "corpus")],
            cwd=tmp,
            env=env,
            capture_output=True,
            text=True,
            timeout=1800,
        )
        text = r.stdout + r.stderr
        if "ORACLE-FAILURE" in text:
            line = [ln for ln in text.splitlines() if "ORACLE-FAILURE" in ln][0]
            return {"atheris_runs": runs, "atheris_crash": line}
        if "No module named 'atheris'" in text or "ModuleNotFoundError" in text:
            return {"atheris_runs": 0, "atheris_note": "atheris not installed (setup.sh installs it offline from the wheelhouse)"}
        done = [ln for ln in text.splitlines() if "Done " in ln]
        return {"atheris_runs": runs, "atheris_summary": done[-1] if done else text[-200:]}
    finally:
        shutil.rmtree(tmp, ignore_errors=True)
