"""C05 - every feasible project completes, and the reported status is truthful."""
import math

from hypothesis import strategies as st

from .. import gen
from .. import spec as S
from ..core import Result
from ..observe import Observer

PID = "C05"
LEVEL = "exploration"
RULE = (
    "Three Hypothesis generators. (status) arbitrary W/F/N models with max_time drawn from 0..40: the observer "
    "must never see a simulated step with time >= max_time, and on return status is SUCCESS <=> all tasks "
    "FINISHED, FAILURE => time >= max_time, number of steps <= max_time. (feasible) W models made feasible by "
    "construction (acyclic over FS/SS/FF/SF; every unfinished non-automatic task gets an eligible worker with "
    "positive skill, targeting team, inside its fixed list, finite absence; every FF/SF-gated task is served "
    "only by a dedicated worker that serves nothing else; automatic tasks unbound) run with max_time = 2*B where "
    "B = sum ceil(remaining/min eligible skill)+1 per task + #tasks + all absence steps + 5 is the sequential "
    "work bound: must end FINISHED_SUCCESS (bounded liveness). (infeasible) the same models with one unfinished "
    'Teams may list a task without the task listing the team; a relay profile has one often-absent worker who must do everything, with helpers on some tasks. '
    'Every feasible model that succeeds with makespan T is simulated again with max_time=T (must succeed, nothing simulated at or beyond T) and max_time=T-1 (must be reported as a failure with unfinished tasks). '
    "non-automatic task stripped of every eligible worker: must not report SUCCESS. Non-trivial = feasible model "
    "with an SS/FF/SF link whose predecessor was WORKING for at most one step or finished in the same step as "
    "its successor, or an infeasible variant; distinct by spec hash."
)
ASSUMPTIONS = [
    "deterministic skills; finite absence lists; unit_time=1",
    "feasibility class is the one the property states (worker of its own for FF/SF-gated tasks)",
    "completeness is decided as bounded liveness: SUCCESS within 2x the sequential work bound",
]
TECHNIQUE = "property-based testing (Hypothesis): feasible-by-construction models must complete within an explicit bound; status/termination invariants"
LEVEL_TEXT = (
    "Generated-input search: bounded-liveness oracle on a feasibility class constructed by the generator, "
    "plus status and termination invariants on arbitrary models; not a proof of liveness."
)
LEVEL_NOTE = "The bound B is computed from the spec; observed makespans stay far below 2B (ratio reported in the evidence counters)."

CFG_STATUS = gen.Cfg(facilities=True, nested="assembly", max_time=list(range(0, 41)), kinds=[0, 0, 1, 2, 3], dup_names=0)
CFG_FEAS = gen.Cfg(
    warm=4,
    facilities=False,
    kinds=[0, 1, 1, 2, 2, 3, 3],
    max_time=[0],
    abs_max=30,
    min_tasks=2,
    tie_rich=3,
    onesided=3,  # teams that list a task without the task listing the team (BaseTeam(targeted_task_list=[...]))
    dup_names=0,  # the repair steps below edit skills per task index; with shared names they would leak to other tasks
)


def make_feasible(spec):
    """Repair step: give every unfinished non-automatic task an eligible worker (dedicated for FF/SF-gated tasks)."""
    n = len(spec["tasks"])
    preds = gen.preds(spec)
    if not spec["teams"]:
        spec["teams"].append({"targets": list(range(n))})
    for ti, t in enumerate(spec["tasks"]):
        t["comp"] = None
        t["nf"] = False
        if t["auto"] or t["prog"] >= 1.0 - 1e-10:
            continue
        gated = any(k in (S.FF, S.SF) for _, k in preds[ti])

        def eligible(wi, w):
            s = w["skills"].get(str(ti))
            return (
                s is not None
                and s > 1e-10
                and ti in spec["teams"][w["team"]]["targets"]
                and (t["fixw"] is None or wi in t["fixw"])
            )

        if gated:
            for w in spec["workers"]:
                w["skills"].pop(str(ti), None)
        if gated or not any(eligible(wi, w) for wi, w in enumerate(spec["workers"])):
            team = None
            for k, tm in enumerate(spec["teams"]):
                if ti in tm["targets"]:
                    team = k
                    break
            if team is None:
                spec["teams"][0]["targets"].append(ti)
                team = 0
            spec["workers"].append(
                {
                    "team": team,
                    "cost": 1.0,
                    "solo": False,
                    "skills": {str(ti): [0.5, 1.0, 2.0][ti % 3]},
                    "fsk": {},
                    "abs": [ti % 4] if ti % 2 else [],
                    "mw": None,
                }
            )
            if t["fixw"] is not None:
                t["fixw"] = list(t["fixw"]) + [len(spec["workers"]) - 1]
    return spec


def work_bound(spec):
    b = 0
    for ti, t in enumerate(spec["tasks"]):
        if t["prog"] >= 1.0 - 1e-10:
            continue
        rem = t["work"] * (1.0 - t["prog"])
        if t["auto"]:
            b += int(math.ceil(rem / t.get("rate", 1.0))) + 1
        else:
            skills = [
                w["skills"][str(ti)]
                for wi, w in enumerate(spec["workers"])
                if w["skills"].get(str(ti)) is not None
                and w["skills"][str(ti)] > 1e-10
                and ti in spec["teams"][w["team"]]["targets"]
                and (t["fixw"] is None or wi in t["fixw"])
            ]
            b += int(math.ceil(rem / min(skills))) + 1
    b += len(spec["tasks"])
    b += len(spec["opts"].get("abs", []))
    b += sum(len(w["abs"]) for w in spec["workers"])
    return b + 5


@st.composite
def _feasible(draw):
    spec = make_feasible(draw(gen.model_spec(CFG_FEAS)))
    kind = "feasible"
    victim = None
    cands = [i for i, t in enumerate(spec["tasks"]) if not t["auto"] and t["prog"] < 1.0 - 1e-10]
    if cands and draw(st.integers(0, 3)) == 0:
        kind = "infeasible"
        victim = draw(st.sampled_from(cands))
        for w in spec["workers"]:
            w["skills"].pop(str(victim), None)
    return {"kind": kind, "spec": spec, "victim": victim}


CFG_RELAY = CFG_FEAS.copy(max_workers=3, work_pool=[1.0, 2.0, 3.0, 4.0, 6.0], tie_rich=0, abs_p=1, abs_size=8, abs_max=14, abs_long=0, max_teams=1, fixed_ids=False)


@st.composite
def _relay(draw):
    """Feasible models in which one or two frequently absent workers have to do everything one task after the other:
    a worker who is lost to the project at some step (never FREE again) leaves work that nobody else can do."""
    spec = draw(gen.model_spec(CFG_RELAY))
    n = len(spec["tasks"])
    spec["teams"][0]["targets"] = list(range(n))
    spec["teams"][0].pop("notask", None)
    if not spec["workers"]:
        spec["workers"].append({"team": 0, "cost": 1.0, "solo": False, "skills": {}, "fsk": {}, "abs": draw(gen.abs_list(14, 8)), "mw": None})
    own = draw(st.integers(0, len(spec["workers"]) - 1))
    for wi, w in enumerate(spec["workers"]):
        w["team"] = 0
        if wi == own:
            w["skills"] = {str(i): draw(st.sampled_from([0.5, 1.0, 1.0, 2.0])) for i in range(n)}
        else:  # helpers on some of the tasks: a task is then finished by one worker while the other is away
            w["skills"] = {str(i): 0.5 for i in range(n) if draw(st.integers(0, 2)) > 0}
    return {"kind": "feasible", "spec": make_feasible(spec), "victim": None}


@st.composite
def _status(draw, cfg):
    return {"kind": "status", "spec": draw(gen.model_spec(cfg)), "victim": None}


def strategy(tier):
    if tier == "quick":
        return st.one_of(_status(CFG_STATUS), _feasible(), _feasible(), _relay())
    return st.one_of(_status(CFG_STATUS.copy(max_tasks=12)), _feasible(), _feasible(), _relay())


def budget(tier):
    if tier == "quick":
        return {"cases": 3000, "shards": 6}
    return {"cases": 120000, "shards": 16}


def check(case):
    res = Result()
    spec = case["spec"]
    kind = case["kind"]
    res.cls(kind)
    res.key = kind + S.spec_hash(spec)
    opts = dict(spec["opts"])
    if kind == "feasible":
        bound = work_bound(spec)
        opts["max_time"] = 2 * bound
    elif kind == "infeasible":
        opts["max_time"] = 30
    max_time = opts["max_time"]

    h = S.warm_build(spec)
    p = h.project
    res.cls("warm_" + str((spec.get("warm") or {}).get("mode")), bool(spec.get("warm")))
    seen = []

    def watch(project, phase):
        if phase in ("allocated", "recorded") and project.time >= max_time:
            seen.append((project.time, phase))

    Observer(phases=(), extra=watch).install(p)
    S.simulate(p, opts)
    Observer.uninstall(p)

    if seen:
        res.fail("C05.step_beyond_max_time", "a step with time %d was simulated although max_time=%d" % (seen[0][0], max_time))
    all_fin = all(int(t.state) == S.FINISHED for t in p.workflow.task_list)
    status = int(p.status)
    if status not in (1, -1):
        res.fail("C05.status_domain", "simulate() returned with status %d" % status)
    if (status == 1) != all_fin:
        res.fail("C05.success_iff_all_finished", "status %d but all tasks finished: %s" % (status, all_fin), sig="success" if status == 1 else "nosuccess")
    if status == -1 and not p.time >= max_time:
        res.fail("C05.failure_before_max_time", "FINISHED_FAILURE at time %d < max_time %d" % (p.time, max_time))
    if p.time > max(max_time, 0):
        res.fail("C05.time_beyond_max_time", "project.time %d > max_time %d" % (p.time, max_time))
    if len(p.cost_list) > max(max_time, 0):
        res.fail("C05.steps_beyond_max_time", "%d steps simulated, max_time %d" % (len(p.cost_list), max_time))

    if kind == "feasible":
        res.stats["feasible_runs"] += 1
        if status != 1:
            unfinished = [t.ID + ":" + str(int(t.state)) for t in p.workflow.task_list if int(t.state) != S.FINISHED]
            kinds = sorted(set("FS SS FF SF".split()[k] for _, _, k in spec["deps"]))
            res.fail(
                "C05.feasible_not_completed",
                "feasible model (bound B=%d, max_time=%d) ended with status %d at time %d; unfinished: %s" % (bound, max_time, status, p.time, unfinished),
                sig="",
            )
            res.cls("kinds_" + "".join(kinds))
        else:
            ratio = p.time / float(bound)
            res.stats["feasible_success"] += 1
            res.cls("time/bound<0.5" if ratio < 0.5 else ("time/bound<0.75" if ratio < 0.75 else ("time/bound<1" if ratio < 1 else "time/bound>=1")))
            # non-trivial: non-FS link with a predecessor working <= 1 step, or finishing together
            first_fin = {}
            nwork = {}
            for i, t in enumerate(h.tasks):
                log = [int(x) for x in t.state_record_list]
                nwork[i] = sum(1 for x in log if x == S.WORKING)
                first_fin[i] = log.index(S.FINISHED) if S.FINISHED in log else len(log)
            for a, b, k in spec["deps"]:
                if k != S.FS and spec["tasks"][a]["prog"] < 1.0 and (nwork[a] <= 1 or first_fin[a] == first_fin[b]):
                    res.nontrivial = True
            res.cls("has_nonFS", any(k != S.FS for _, _, k in spec["deps"]))
        if status == 1 and p.time >= 1 and not res.violations:
            # the boundary: with max_time equal to the makespan T the run still succeeds (nothing is simulated at or
            # beyond T), with max_time = T - 1 it is reported as a failure with unfinished tasks
            T = int(p.time)
            for mt, want in ((T, 1), (T - 1, -1)):
                hb = S.build(dict(spec, warm=None))
                S.simulate(hb.project, dict(opts, max_time=mt))
                fin = all(int(t.state) == S.FINISHED for t in hb.project.workflow.task_list)
                if int(hb.project.status) != want or fin != (want == 1) or hb.project.time > max(mt, 0):
                    res.fail("C05.max_time_boundary", "makespan %d: simulate(max_time=%d) gives status %d, all tasks finished: %s, time %d" % (T, mt, int(hb.project.status), fin, hb.project.time), sig="at" if mt == T else "below")
            res.stats["boundary_runs"] += 2
    elif kind == "infeasible":
        res.nontrivial = True
        if status == 1:
            res.fail("C05.infeasible_success", "task %s has no eligible worker but the project reports FINISHED_SUCCESS" % S.tid(case["victim"]))
        vt = h.tasks[case["victim"]]
        if int(vt.state) == S.FINISHED:
            res.fail("C05.unserved_task_finished", "task %s can never be served but is FINISHED" % vt.ID)
    return res
