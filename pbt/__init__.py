"""Property-based verification harness for pDESy (see /verif/DESIGN.md)."""
