#!/bin/sh
# tools/with_patch.sh <seed-id> <check> [<check> ...] : run checks against a scratch copy of /repo with the seeded patch applied
sid="$1"; shift
tmp=$(mktemp -d /tmp/pdesy_wp_XXXXXX)
cp -r /repo/pDESy "$tmp/" && (cd "$tmp" && patch -p1 -s < "/verif/seeded/$sid/patch.diff") || { echo "patch failed"; rm -rf "$tmp"; exit 2; }
for c in "$@"; do
  PDESY_REPO="$tmp" VERIF_MAX_BUCKETS=1 /verif/check "$c" --tier quick --no-evidence 2>&1 | grep -v "^KNOWN-FINDING" | head -2 | cut -c1-260
done
rm -rf "$tmp"
