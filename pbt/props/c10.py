"""C10 - absence is dead time: no work, no cost, and it only stretches the schedule."""
from hypothesis import strategies as st

from .. import gen
from .. import simcheck
from .. import spec as S
from ..core import Result

PID = "C10"
LEVEL = "exploration"
RULE = (
    "Two Hypothesis generators. (A) models of profiles W/F with project-wide absence lists (incl. step 0, "
    "consecutive steps, steps beyond the end), both auto-task flags and per-resource absence lists: at every "
    "project-wide absence step inside the run the logs and live snapshots must show no progress of non-automatic "
    "tasks, nothing newly allocated on either side, every resource logged ABSENCE, zero cost at every level, "
    "automatic tasks progressing by their unit rate iff the flag is set and the task is live WORKING; an "
    "individually absent resource contributes nothing (reference contribution of C02) and costs nothing. "
    "(B) metamorphic relation on models without per-resource absences and without component-bound automatic "
    "tasks (and flag off or no automatic task), both runs ending FINISHED_SUCCESS: "
    "dump(simulate(absence=L); remove_absence_time_list()) == dump(simulate(absence=[])), all logs of all objects, "
    "Relation B is also evaluated for backward_simulate (one model in four): its mirrored result and mirrored absence list, after remove_absence_time_list(), must equal the backward run without absence. One spec in three has lived before (warm start): another model edited in place into this one or swapped into the old project object, or the model's own run cut short by max_time and then continued with one of the unequal initialize-flag combinations (state carried over and logs restarted, or state reset and logs appended), or a first run that does not initialize the logs. "
    'Part A also observes the inner run of backward_simulate (one cold-started model in four; half of an automatic-task-rich profile). '
    "time, costs, status. Non-trivial = an absence step strictly inside the run at which some task was live "
    "WORKING (A), or such a model on which relation B was evaluated; distinct by canonical spec hash."
)
ASSUMPTIONS = [
    "deterministic skills; unit_time=1",
    "relation B is only claimed where the property claims it: no individually absent resources, no component-bound "
    "automatic tasks, flag off or no automatic task, and both runs succeed before max_time",
]
TECHNIQUE = "property-based testing (Hypothesis): absence-step invariants + metamorphic relation against the absence-free run"
LEVEL_TEXT = (
    "Generated-input search: invariants inside every project-wide absence step of every generated run, and a "
    "metamorphic comparison of the complete log dump with the absence-free run; not a proof."
)
LEVEL_NOTE = "Trusts the step observer (live WORKING vs displayed READY on absence steps) and the dump of all logs."

CFG_A = gen.Cfg(warm_modes=["morph", "graft", "append", "nolog", "cutrerun"], warm=2, facilities=True, max_time=[40, 80], float_mode=8, abs_max=14, abs_p=2, abs_size=6)
CFG_B = gen.Cfg(
    servable=3,
    rules=[0, 1, 2, 3, 4, 4, 4, 4, 5, 6, 7, 8],  # FIFO counts log entries: the rule most exposed to absence steps
    facilities=True,
    worker_abs=False,
    auto_with_component=False,
    max_time=[300],
    abs_max=30,
    zero_work=True,
)


@st.composite
def _spec_b(draw, cfg):
    spec = draw(gen.model_spec(cfg))
    if not spec["opts"]["abs"]:
        spec["opts"]["abs"] = draw(st.lists(st.integers(0, cfg.abs_max), unique=True, min_size=1, max_size=6))
    spec["mode"] = "B"
    if draw(st.integers(0, 3)) == 0 and not any(c.get("parent") is not None for c in spec["comps"]):
        spec["bw"] = True
    return spec


# every model has lived before (warm start, calendars edited in place half of the time), every resource has a calendar
CFG_A_WARM = CFG_A.copy(warm=1, warm_modes=["morph", "morph", "graft", "cutrerun"], abs_p=1, min_comps=1, min_wps=1, float_mode=0)


@st.composite
def _spec_a(draw, cfg):
    """Part A; one cold-started model in four is observed inside backward_simulate (same options, same clauses)."""
    spec = draw(gen.model_spec(cfg))
    if not spec.get("warm") and draw(st.integers(0, 3)) == 0:
        spec["backward"] = True
    return spec


# many automatic tasks, absence steps early in the run, no warm start: half of these are observed inside backward_simulate
CFG_A_AUTO = CFG_A.copy(p_auto=2, abs_max=8, warm=0, float_mode=0)


@st.composite
def _spec_a_auto(draw, cfg):
    spec = draw(gen.model_spec(cfg))
    if not spec["opts"]["abs"]:
        spec["opts"]["abs"] = draw(st.lists(st.integers(0, 8), unique=True, min_size=1, max_size=4))
    if draw(st.booleans()):
        spec["backward"] = True
    return spec


@st.composite
def _spec_a_inplace(draw, cfg):
    """Calendars (and skill maps) of a model that has run before are edited in place - same list objects, other
    entries - and the model runs again."""
    spec = draw(gen.model_spec(cfg))
    spec["warm"] = {"mode": "morph", "k": draw(st.sampled_from([1, 3]))}
    spec.pop("unit_time", None)
    return spec


def strategy(tier):
    if tier == "quick":
        return st.one_of(_spec_a(CFG_A), _spec_a(CFG_A), _spec_b(CFG_B), _spec_b(CFG_B), gen.model_spec(CFG_A_WARM), _spec_a_auto(CFG_A_AUTO), _spec_a_inplace(CFG_A_WARM))
    return st.one_of(
        _spec_a(CFG_A.copy(max_tasks=12, max_workers=8)),
        _spec_a(CFG_A.copy(max_tasks=12, max_workers=8)),
        _spec_b(CFG_B.copy(max_tasks=12, max_workers=8)),
        _spec_b(CFG_B.copy(max_tasks=12, max_workers=8)),
        gen.model_spec(CFG_A_WARM.copy(max_tasks=12, max_workers=8)),
        _spec_a_auto(CFG_A_AUTO.copy(max_tasks=12, max_workers=8)),
        _spec_a_inplace(CFG_A_WARM.copy(max_tasks=12, max_workers=8)),
    )


def budget(tier):
    if tier == "quick":
        return {"cases": 3500, "shards": 7}
    return {"cases": 160000, "shards": 16}


def relation_b_applicable(spec):
    if any(w["abs"] for w in spec["workers"]) or any(f["abs"] for f in spec["facs"]):
        return False
    if any(t["auto"] and t.get("comp") is not None for t in spec["tasks"]):
        return False
    if spec["opts"].get("auto_abs") and any(t["auto"] for t in spec["tasks"]):
        return False
    return True


def check(spec):
    res = Result()
    sim = simcheck.Sim(spec)
    res.cls("part_A_backward_run", sim.backward)
    working_inside, indiv = simcheck.check_c10a(sim, res)
    res.nontrivial = working_inside or indiv
    if relation_b_applicable(spec):
        res.cls("relation_B_applicable")
        if int(sim.p.status) != 1:
            res.cls("relation_B_skipped_failure_run")
            return res
        opts0 = dict(spec["opts"], abs=[])
        # one model in four: the same relation for backward_simulate (its result is mirrored into forward time, and
        # so is the absence list the result carries, which remove_absence_time_list() then reads)
        run = S.backward_simulate if spec.get("bw") else S.simulate
        res.cls("relation_B_backward", bool(spec.get("bw")))
        h2 = S.build(spec)
        run(h2.project, opts0)
        if int(h2.project.status) != 1:
            res.cls("relation_B_skipped_failure_run")
            return res
        # fresh run with absence (the observed one would do, but keep the relation self-contained)
        h1 = S.build(spec)
        run(h1.project, spec["opts"])
        n_run = len(h1.project.cost_list)
        n_inside = sum(1 for a in spec["opts"]["abs"] if a < n_run)
        listed = list(h1.project.absence_time_list)
        for a in listed:
            if 0 <= a < n_run and any(int(r.state_record_list[a]) != S.R_ABSENCE for r in list(h1.workers) + list(h1.facs)):
                res.fail("C10.result_absence_list", "step %d is listed as an absence step of the result but a resource is not logged ABSENCE there" % a, sig="bw_state" if spec.get("bw") else "fw_state")
        h1.project.remove_absence_time_list()
        d1, d2 = S.dump(h1.project), S.dump(h2.project)
        res.cls("relation_B_evaluated")
        res.cls("relation_B_absence_beyond_end", any(a >= sim.N for a in spec["opts"]["abs"]))
        res.cls("relation_B_absence_inside", n_inside > 0)
        res.stats["relation_B_runs"] += 1
        if d1 != d2:
            diffs = S.diff_dumps(d1, d2)
            sig = "rule_FIFO" if spec["opts"]["rule"] == 4 else ""
            res.fail(
                "C10.remove_equals_absence_free",
                "after remove_absence_time_list() the result differs from the absence-free run: %s" % "; ".join(diffs[:3]),
                sig=sig,
            )
        if working_inside:
            res.nontrivial = True
    return res
