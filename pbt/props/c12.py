"""C12 - PERT/CPM values equal an independent critical-path computation at every update."""
from hypothesis import strategies as st

from .. import gen
from .. import simcheck
from .. import spec as S
from ..core import Result
from ..observe import T_EFT, T_EST, T_LFT, T_LST, T_REM

PID = "C12"
LEVEL = "exploration"
RULE = (
    "Two Hypothesis generators over finish-to-start networks. (standalone) DAGs of 1-10 tasks (any shape, several "
    "heads/tails, zero work, shuffled task_list order, some tasks being sub-project tasks with a per-step rate != 1): workflow.initialize(), then a generated history of 1-6 "
    "rounds {advance t by 0-3, reduce some remaining amounts (never below 0), update_PERT_data(t)}; after "
    "initialize and after every round est/eft/lst/lft/critical_path_length are compared (1e-9) with a reference "
    "CPM (topological longest path forward, min over successors backward), slack >= 0 and some head-to-tail path "
    "has zero slack; a 'rounding' shape (zero-work head, decimal amounts, several branches) makes latest times that "
    "should be 0 come out as tiny negative numbers. (simulation) FS-only models under resource contention: the same comparison at the 'updated' "
    "phase of every step (the live remaining amounts of the snapshot feed the reference), half of the time after a "
    "backward_simulate (with/without due-time helper tasks) or a warm start on the same objects. Non-trivial = the "
    "critical path length (minus t) changed between two consecutive updates of one workflow; distinct by case hash."
)
ASSUMPTIONS = ["finish-to-start networks only, as the property states", "tolerance 1e-9 on all PERT values"]
TECHNIQUE = "property-based testing (Hypothesis): generated DAGs and update histories against a reference CPM implementation"
LEVEL_TEXT = (
    "Generated networks and update histories compared with an independent CPM; covers the freshly initialised "
    "workflow and every later update, standalone and inside simulations; not a proof."
)
LEVEL_NOTE = "Reference CPM is 25 lines (longest path over a topological order); trusts the observer for the in-simulation part."

TOL = 1e-9


def ref_cpm(n, edges, rem, t):
    """edges: list of (a, b) with a before b in index order. Returns est, eft, lst, lft, cpl."""
    preds = {i: [] for i in range(n)}
    succs = {i: [] for i in range(n)}
    for a, b in edges:
        preds[b].append(a)
        succs[a].append(b)
    est = [0.0] * n
    eft = [0.0] * n
    for i in range(n):  # index order is a topological order (a < b)
        est[i] = max([t] + [eft[a] for a in preds[i]]) if preds[i] else t
        eft[i] = est[i] + rem[i]
    cpl = max(eft) if n else 0.0
    lft = [0.0] * n
    lst = [0.0] * n
    for i in reversed(range(n)):
        lft[i] = min(lst[b] for b in succs[i]) if succs[i] else cpl
        lst[i] = lft[i] - rem[i]
    return est, eft, lst, lft, cpl


def compare(res, where, n, edges, rem, t, got, cpl_got):
    est, eft, lst, lft, cpl = ref_cpm(n, edges, rem, t)
    ok = True
    if abs(cpl_got - cpl) > TOL * max(1.0, abs(cpl)):
        res.fail("C12.critical_path_length", "%s: critical_path_length %r, reference %r" % (where, cpl_got, cpl))
        ok = False
    for i in range(n):
        for name, g, e in (("est", got[i][0], est[i]), ("eft", got[i][1], eft[i]), ("lst", got[i][2], lst[i]), ("lft", got[i][3], lft[i])):
            if abs(g - e) > TOL * max(1.0, abs(e)):
                res.fail("C12." + name, "%s: task %d %s=%r, reference %r (rem %s, edges %s, t=%s)" % (where, i, name, g, e, rem, edges, t), sig="")
                ok = False
        slack = got[i][2] - got[i][0]
        if slack < -TOL:
            res.fail("C12.negative_slack", "%s: task %d has slack %r" % (where, i, slack))
            ok = False
    if ok and n:
        # some head-to-tail path has zero slack (on the implementation's own numbers)
        succs = {i: [] for i in range(n)}
        has_pred = set()
        for a, b in edges:
            succs[a].append(b)
            has_pred.add(b)
        zero = [abs(got[i][2] - got[i][0]) <= 1e-7 for i in range(n)]
        reach_tail = [False] * n
        for i in reversed(range(n)):
            if zero[i]:
                reach_tail[i] = (not succs[i]) or any(reach_tail[b] for b in succs[i])
        if not any(reach_tail[i] for i in range(n) if i not in has_pred):
            res.fail("C12.no_critical_path", "%s: no head-to-tail path with zero slack (slacks %s)" % (where, [got[i][2] - got[i][0] for i in range(n)]))
    return cpl - t


WORK = [0.0, 0.5, 1.0, 1.0, 2.0, 3.0, 4.0, 6.0]


@st.composite
def _standalone(draw, max_n):
    n = draw(st.integers(1, max_n))
    mode = draw(st.integers(0, 7))
    if mode == 0:
        work_s = st.floats(0.0, 20.0, allow_nan=False)
    elif mode <= 2:
        # decimal amounts: sums and differences round, so that a latest time that should be exactly 0 (or equal to
        # another one) comes out as a tiny positive or negative number
        work_s = st.sampled_from([0.0, 0.0, 0.1, 0.2, 0.3, 0.7, 1.1, 2.3])
    else:
        work_s = st.sampled_from(WORK)
    work = draw(st.lists(work_s, min_size=n, max_size=n))
    raw = draw(st.lists(st.tuples(st.integers(0, n - 1), st.integers(0, n - 1)), max_size=2 * n)) if n > 1 else []
    edges = sorted(set((min(a, b), max(a, b)) for a, b in raw if a != b))
    order = list(draw(st.permutations(list(range(n)))))
    hist = draw(
        st.lists(
            st.tuples(st.integers(0, 3), st.lists(st.sampled_from([0.0, 0.0, 0.25, 0.5, 1.0]), min_size=n, max_size=n)),
            min_size=1,
            max_size=6,
        )
    )
    case = {"kind": "standalone", "work": work, "edges": [list(e) for e in edges], "order": order, "hist": [[dt, fr] for dt, fr in hist]}
    if draw(st.integers(0, 3)) == 0:
        # some tasks are sub-project tasks whose work proceeds by a rate != 1 per step: PERT is stated in remaining
        # work for every kind of task
        k = draw(st.integers(1, min(3, n)))
        idx = draw(st.lists(st.integers(0, n - 1), min_size=k, max_size=k, unique=True))
        case["sub"] = {str(i): draw(st.sampled_from([0.25, 0.5, 2.0, 4.0])) for i in idx}
    return case


DEC = [0.1, 0.2, 0.3, 0.6, 0.7, 0.9, 1.1, 1.3, 2.3]


@st.composite
def _rounding(draw):
    """Zero-work head with a critical and a slack branch, decimal work amounts: the head's correct latest times are 0
    up to rounding (often a tiny negative number), and a second candidate arrives from the slack branch."""
    k = draw(st.integers(2, 4))  # branches
    work = [0.0]
    edges = []
    tails = []
    for b in range(k):
        ln = draw(st.integers(1, 3))
        prev = 0
        for _ in range(ln):
            work.append(draw(st.sampled_from(DEC)))
            edges.append([prev, len(work) - 1])
            prev = len(work) - 1
        tails.append(prev)
    if draw(st.booleans()):
        work.append(draw(st.sampled_from(DEC)))
        for t in tails:
            edges.append([t, len(work) - 1])
    n = len(work)
    order = list(draw(st.permutations(list(range(n)))))
    hist = [[draw(st.integers(0, 1)), [0.0] * n] for _ in range(draw(st.integers(1, 2)))]
    return {"kind": "standalone", "work": work, "edges": edges, "order": order, "hist": hist}


@st.composite
def _long_chain(draw):
    """A line of more than a thousand tasks (with a few shortcuts and side tasks): nothing in the PERT passes may
    depend on the depth of the network."""
    n = draw(st.sampled_from([1001, 1002, 1003, 1100, 1300]))
    pool = draw(st.sampled_from([[1.0], [1.0, 2.0], [0.5, 1.0, 3.0]]))
    work = [pool[i % len(pool)] for i in range(n)]
    edges = [[i, i + 1] for i in range(n - 1)]
    for _ in range(draw(st.integers(0, 3))):
        a = draw(st.integers(0, n - 3))
        edges.append([a, draw(st.integers(a + 2, n - 1))])
    k = draw(st.integers(0, 2))  # side tasks hanging off the line
    for j in range(k):
        work.append(draw(st.sampled_from([1.0, 50.0])))
        edges.append([draw(st.integers(0, n - 1)), n + j])
    m = len(work)
    fr = [0.0] * m
    fr[0] = draw(st.sampled_from([0.0, 0.5, 1.0]))
    return {"kind": "standalone", "work": work, "edges": sorted(set(tuple(e) for e in edges)), "order": list(range(m)) if draw(st.booleans()) else list(reversed(range(m))),
            "hist": [[draw(st.integers(0, 2)), fr]], "long": True}


CFG_SIM = gen.Cfg(warm_modes=["morph", "graft", "append", "nolog", "cutrerun"], warm=3, due=True, kinds=[0], facilities=False, max_workers=3, min_tasks=2, max_tasks=8, max_time=[40], p_auto=10)


@st.composite
def _sim(draw, cfg):
    spec = draw(gen.model_spec(cfg))
    for t in spec["tasks"]:
        if t["comp"] is None and not t["nf"] and draw(st.integers(0, 5)) == 0:
            t["auto"] = True
            t["rate"] = draw(st.sampled_from([0.25, 0.5, 1.0, 2.0]))
            t["sub"] = {"unit_s": 60}
    return {"kind": "sim", "spec": spec, "pre_backward": draw(st.sampled_from([None, None, False, True]))}


def strategy(tier):
    if tier == "quick":
        return st.one_of(_standalone(10), _standalone(10), _standalone(10), _sim(CFG_SIM), _sim(CFG_SIM), _rounding(), _rounding(), _long_chain())
    return st.one_of(_standalone(14), _standalone(14), _standalone(14), _sim(CFG_SIM.copy(max_tasks=12, max_workers=5, facilities=True)),
                     _sim(CFG_SIM.copy(max_tasks=12, max_workers=5, facilities=True)), _rounding(), _rounding(), _long_chain())


def budget(tier):
    if tier == "quick":
        return {"cases": 3000, "shards": 4}
    return {"cases": 200000, "shards": 16}


def check(case):
    res = Result()
    res.cls(case["kind"])
    if case["kind"] == "standalone":
        n = len(case["work"])
        edges = [tuple(e) for e in case["edges"]]
        sub = case.get("sub") or {}
        tasks = [
            S.BaseSubProjectTask("T%d" % i, ID="t%d" % i, default_work_amount=case["work"][i], work_amount_progress_of_unit_step_time=sub[str(i)])
            if str(i) in sub
            else S.BaseTask("T%d" % i, ID="t%d" % i, default_work_amount=case["work"][i])
            for i in range(n)
        ]
        res.cls("sub_project_task", bool(sub))
        for a, b in edges:
            tasks[b].append_input_task(tasks[a])
        wf = S.BaseWorkflow([tasks[i] for i in case["order"]])
        wf.initialize()

        def got():
            return [(t.est, t.eft, t.lst, t.lft) for t in tasks]

        rem = [t.remaining_work_amount for t in tasks]
        last = compare(res, "after initialize()", n, edges, rem, 0, got(), wf.critical_path_length)
        t = 0
        changed = False
        for r, (dt, fr) in enumerate(case["hist"]):
            t += dt
            for i, f in enumerate(fr):
                tasks[i].remaining_work_amount = tasks[i].remaining_work_amount * (1.0 - f)
            wf.update_PERT_data(t)
            rem = [x.remaining_work_amount for x in tasks]
            cur = compare(res, "after update %d (t=%d)" % (r + 1, t), n, edges, rem, t, got(), wf.critical_path_length)
            if abs(cur - last) > 1e-9:
                changed = True
            last = cur
            res.stats["updates_checked"] += 1
            if res.violations:
                break
        res.cls("multi_head", n - len(set(b for _, b in edges)) > 1)
        res.cls("line_of_more_than_1000_tasks", bool(case.get("long")))
        res.nontrivial = changed and n > 1
    else:
        spec = case["spec"]
        pre = None
        if case.get("pre_backward") is not None:
            # the same workflow has been through a backward simulation before (with or without due-time helpers)
            def pre(h, due=bool(case["pre_backward"])):
                S.backward_simulate(h.project, spec["opts"], considering_due_time_of_tail_tasks=due)

            res.cls("after_backward_due" if case["pre_backward"] else "after_backward")
        sim = simcheck.Sim(spec, phases=("updated",), pre=pre)
        n = sim.n
        edges = sorted(set((a, b) for a, b, k in spec["deps"]))
        last = None
        changed = False
        for s, d in enumerate(sim.steps):
            if "updated" not in d:
                continue  # steps of an earlier, appended-to run
            sn = d["updated"]
            rem = [sn["tasks"][S.tid(i)][T_REM] for i in range(n)]
            g = [(sn["tasks"][S.tid(i)][T_EST], sn["tasks"][S.tid(i)][T_EFT], sn["tasks"][S.tid(i)][T_LST], sn["tasks"][S.tid(i)][T_LFT]) for i in range(n)]
            cur = compare(res, "simulation step %d" % s, n, edges, rem, sn["time"], g, sn["cpl"])
            if last is not None and abs((cur + sn["time"]) - last) > 1e-9:
                changed = True  # the projected end moved (contention / absence made the path grow)
            last = cur + sn["time"]
            res.stats["updates_checked"] += 1
            if res.violations:
                break
        res.nontrivial = changed
    return res
