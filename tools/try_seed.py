#!/usr/bin/env python3
"""Confirm a seeded change produced by a sub-agent in a scratch worktree and run checks against it.

usage: tools/try_seed.py <seed-id> <worktree> <property> [--checks C01,C02|all] [--cases N] [--save]

Steps: take `git diff` of the worktree as patch.diff; run the repository's suite in the worktree (must pass);
run demo.py with the change (must exit 1) and without it (git stash; must exit 0); run the quick checks
against the worktree (env PDESY_REPO=<worktree>); with --save write /verif/seeded/<seed-id>/.
"""
import argparse
import json
import os
import shutil
import subprocess
import sys
import time

VERIF = os.path.dirname(os.path.dirname(os.path.abspath(__file__)))
ALL = ["C%02d" % i for i in range(1, 21)]


def sh(cmd, cwd=None, env=None, timeout=3600):
    r = subprocess.run(cmd, cwd=cwd, env=env, capture_output=True, text=True, timeout=timeout)
    return r.returncode, r.stdout, r.stderr


def main():
    ap = argparse.ArgumentParser()
    ap.add_argument("seed_id")
    ap.add_argument("worktree")
    ap.add_argument("prop")
    ap.add_argument("--checks", default=None)
    ap.add_argument("--cases", type=int)
    ap.add_argument("--save", action="store_true")
    ap.add_argument("--seed", default="1")
    a = ap.parse_args()
    wt = os.path.abspath(a.worktree)
    env = dict(os.environ, PYTHONDONTWRITEBYTECODE="1", MPLBACKEND="Agg")
    rc, patch, _ = sh(["git", "-C", wt, "diff"])
    if not patch.strip():
        print("no diff in", wt)
        return 2
    files = [l[6:] for l in patch.splitlines() if l.startswith("+++ b/")]
    print("patch touches:", files)
    if any(not f.startswith("pDESy/") for f in files):
        print("REJECT: patch touches files outside pDESy/")
    rc, out, err = sh(["/venv/bin/python", "-m", "pytest", "-q", "-p", "no:cacheprovider", "--timeout=900", "tests"], cwd=wt, env=env)
    suite_tail = (out.strip().splitlines() or ["?"])[-1]
    suite_ok = rc == 0
    print("suite with change:", suite_tail)
    demo = os.path.join(wt, "demo.py")
    rc_with, o1, e1 = sh(["/venv/bin/python", "demo.py"], cwd=wt, env=env)
    # no git stash: the stash is shared by all worktrees of a repository
    pfile = os.path.join("/tmp", "try_seed_%s_%d.patch" % (os.path.basename(wt), os.getpid()))
    open(pfile, "w").write(patch)
    sh(["git", "-C", wt, "checkout", "--", "pDESy"])
    try:
        rc_without, o2, e2 = sh(["/venv/bin/python", "demo.py"], cwd=wt, env=env)
    finally:
        rc_a, _, err_a = sh(["git", "-C", wt, "apply", pfile])
        if rc_a != 0:
            print("ERROR re-applying patch:", err_a)
        os.remove(pfile)
    print("demo with change: exit %d; without: exit %d" % (rc_with, rc_without))
    if rc_with == 1:
        print("   ", (o1.strip().splitlines() or [""])[-1][:200])
    checks = ALL if a.checks == "all" else (a.checks.split(",") if a.checks else [a.prop])
    results = {}
    for pid in checks:
        cmd = [os.path.join(VERIF, "check"), pid, "--tier", "quick", "--no-evidence"]
        if a.cases:
            cmd += ["--cases", str(a.cases)]
        t0 = time.time()
        rc, out, err = sh(cmd, env=dict(env, PDESY_REPO=wt, VERIF_SEED=a.seed, VERIF_MAX_BUCKETS="2"))
        viol = [l.strip() for l in out.splitlines() if l.startswith("  violated")]
        results[pid] = {"exit": rc, "violations": viol[:3], "wall_s": round(time.time() - t0, 1)}
        print("check %s: exit %d (%.0fs) %s" % (pid, rc, time.time() - t0, viol[0][:220] if viol else ""))
        if rc == 2:
            print(out[-800:])
    caught = [p for p, r in results.items() if r["exit"] == 1]
    print("CAUGHT BY:", caught or "NONE")
    if a.save:
        d = os.path.join(VERIF, "seeded", a.seed_id)
        os.makedirs(d, exist_ok=True)
        open(os.path.join(d, "patch.diff"), "w").write(patch)
        shutil.copy(demo, os.path.join(d, "demo.py"))
        notes = os.path.join(wt, "NOTES.md")
        if os.path.exists(notes):
            shutil.copy(notes, os.path.join(d, "NOTES.md"))
        meta_path = os.path.join(d, "meta.json")
        meta = json.load(open(meta_path)) if os.path.exists(meta_path) else {}
        meta.update(
            {
                "id": a.seed_id,
                "breaks_property": a.prop,
                "files": files,
                "suite_with_change": suite_tail,
                "suite_green": suite_ok,
                "demo_exit_with_change": rc_with,
                "demo_exit_without_change": rc_without,
                "confirmed": bool(suite_ok and rc_with == 1 and rc_without == 0),
                "what_i_ran": "tools/try_seed.py: pytest in the worktree with the change; demo.py with and without the change (git stash); ./check <ID> --tier quick with PDESY_REPO=<worktree>",
            }
        )
        meta.setdefault("checks", {}).update(results)
        meta["caught_by"] = sorted(set(meta.get("caught_by", [])) | set(caught))
        json.dump(meta, open(meta_path, "w"), indent=1, sort_keys=True)
        print("saved to", d)
    return 0


if __name__ == "__main__":
    sys.exit(main())
