#!/usr/bin/env python3
"""Regenerate /verif/MANIFEST.json from the property modules that exist (keeps it schema-valid)."""
import importlib
import json
import os
import subprocess
import sys

VERIF = os.path.dirname(os.path.dirname(os.path.abspath(__file__)))
sys.path.insert(0, VERIF)
os.chdir(VERIF)

ALL = ["C%02d" % i for i in range(1, 21)]


def main():
    checks = []
    not_applicable = []
    for pid in ALL:
        path = os.path.join(VERIF, "pbt", "props", pid.lower() + ".py")
        if not os.path.exists(path):
            not_applicable.append(
                {"property_id": pid, "reason": "check not built yet (work in progress, see DESIGN.md section 12)"}
            )
            continue
        mod = importlib.import_module("pbt.props." + pid.lower())
        if getattr(mod, "NOT_APPLICABLE", None):
            not_applicable.append({"property_id": pid, "reason": mod.NOT_APPLICABLE})
            continue
        checks.append(
            {
                "property_id": pid,
                "quick_cmd": "./check %s --tier quick" % pid,
                "thorough_cmd": "./check %s --tier thorough" % pid,
                "evidence_file": "evidence/%s.json" % pid,
                "replay_cmd_template": "./check %s --replay {path}" % pid,
                "engine": "pbt",
                "level_claimed": {
                    "category": getattr(mod, "LEVEL", "exploration"),
                    "text": mod.LEVEL_TEXT,
                    "design_ref": "DESIGN.md section 5, " + pid,
                },
                "level_note": mod.LEVEL_NOTE,
                "technique": mod.TECHNIQUE,
            }
        )
    hooks_commits = subprocess.run(
        ["git", "-C", "/repo", "log", "--format=%H", "--grep=^verif hook"],
        capture_output=True,
        text=True,
    ).stdout.split()
    manifest = {
        "version": 1,
        "setup_cmd": "./setup.sh",
        "hooks": {
            "guard": "PDESY_VERIF",
            "enable": "environment variable PDESY_VERIF=1 (set by ./check); pure Python, nothing to build: "
            "checks import pDESy from /repo's working tree (sys.path[0]=/repo, asserted)",
            "baseline_off_cmd": "cd /repo && env -u PDESY_VERIF /venv/bin/python -m pytest -ra -q -p no:cacheprovider "
            "--timeout=900 --continue-on-collection-errors",
            "source_commits": hooks_commits,
            "add_only": True,
        },
        "engines": [
            {
                "name": "pbt",
                "path": "pbt/",
                "serves_properties": [c["property_id"] for c in checks],
                "kind_free_text": "Hypothesis 6.168 property-based testing: generated model specs / operation "
                "sequences / fault points against explicit oracles (reference models, round-trips, differential and "
                "metamorphic relations, history invariants); exhaustive enumeration of small finite sub-domains; "
                "atheris (libFuzzer) as a second engine for the pure functions in the thorough tier",
            }
        ],
        "checks": checks,
        "notes": "Every check: exit 0 = held on everything explored, exit 1 + 'VIOLATION property=<id> replay=<path>', "
        "exit 2 = harness error. VERIF_SEED seeds Hypothesis (seed*1000+shard). Known findings: KNOWN_FINDINGS.txt.",
        "not_applicable": not_applicable,
    }
    with open(os.path.join(VERIF, "MANIFEST.json"), "w") as f:
        json.dump(manifest, f, indent=1)
        f.write("\n")
    try:
        import jsonschema

        jsonschema.validate(manifest, json.load(open("/root/.vp/MANIFEST.schema.json")))
        print("MANIFEST.json valid: %d checks, %d not_applicable" % (len(checks), len(not_applicable)))
    except ImportError:
        print("MANIFEST.json written (jsonschema not available to validate)")


if __name__ == "__main__":
    main()
