"""C06 - no avoidable waiting: work starts, proceeds and ends as early as the rules allow."""
from .. import gen
from .. import simcheck
from ..core import Result

PID = "C06"
LEVEL = "exploration"
RULE = (
    'Hypothesis-generated models (profiles W and F, all dependency kinds, solo flags, fixed lists, per-resource absences, all task rules). Oracle at every working step: start dependencies satisfied in the updated snapshot => not NONE; automatic task without component not READY after allocation; no FREE worker eligible (C04 predicate) for a READY/WORKING non-facility task that can still accept it, and no FREE eligible worker+facility pair of the placed workplace for facility tasks of single-task components of flat products; zero remaining work and finish dependencies at the end of step k-1 => FINISHED at step k. Non-trivial = a READY task waited after allocation for lack of an eligible worker, or a worker joined an already WORKING task; distinct by spec hash.'
)
ASSUMPTIONS = [
    "skill standard deviations are 0 (deterministic skills); unit_time=1; task_performed_mode='multi-workers'",
    "generated models respect the implicit preconditions of DESIGN.md section 4 (unique IDs/names, acyclic graph, forest products)",
]
TECHNIQUE = 'property-based testing (Hypothesis): generated models, no-idle / no-delay invariants on live step snapshots'
LEVEL_TEXT = 'Generated-input search with invariants evaluated on the end-of-allocation state of every working step (sound because allocation lists only grow during the pass); not a proof.'
LEVEL_NOTE = 'Trusts the step observer; eligibility predicate shared with C04; pair clause only for flat products and single-task components, as the property states.'

CFG = gen.Cfg(warm=4, facilities=True, max_workers=5, max_time=[40, 80], kinds=[0, 0, 1, 2, 3], inputs=False, abs_p=2, abs_size=6,
              abs_max=12, max_deps_factor=3)


CFG_PAIRS = CFG.copy(max_wps=2, max_facs_per_wp=3, min_tasks=3, max_tasks=6, max_workers=4)


def strategy(tier):
    from hypothesis import strategies as st

    cfg = CFG if tier == "quick" else CFG.copy(max_tasks=12, max_workers=8)
    pairs = CFG_PAIRS if tier == "quick" else CFG_PAIRS.copy(max_tasks=9, max_workers=6)
    return st.one_of(gen.model_spec(cfg), gen.model_spec(cfg), gen.model_spec(pairs).map(gen.single_task_components))


def budget(tier):
    if tier == "quick":
        return {"cases": 3000, "shards": 6}
    return {"cases": 150000, "shards": 16}


def check(spec):
    res = Result()
    sim = simcheck.Sim(spec)
    simcheck.check_c06(sim, res)
    return res
