#!/usr/bin/env python3
"""Re-run the quick check of the property each seeded change breaks, on a scratch copy of /repo/pDESy with the
patch applied (PDESY_REPO=<copy>; /repo itself is not touched, so this can run next to anything else).

usage: tools/recheck_seeded.py [seed-id ...] [--jobs N] [--seeds 1,2] [--extra]
Writes meta.json["recheck"] = {"<check>@seed<k>": {"exit":, "evaluations":, "first":}} and prints one line per seed.
--extra also runs the other checks listed in meta.json "caught_by".
Exit 0 if every seeded change is caught by the check of the property it breaks (at the first listed seed), else 1.
"""
import argparse
import json
import multiprocessing
import os
import re
import shutil
import subprocess
import sys
import tempfile

VERIF = os.path.dirname(os.path.dirname(os.path.abspath(__file__)))


def one(job):
    sid, seeds, extra = job
    d = os.path.join(VERIF, "seeded", sid)
    meta = json.load(open(os.path.join(d, "meta.json")))
    tmp = tempfile.mkdtemp(prefix="pdesy_rs_")
    out = {}
    try:
        shutil.copytree("/repo/pDESy", os.path.join(tmp, "pDESy"), ignore=shutil.ignore_patterns("__pycache__"))
        r = subprocess.run(["patch", "-p1", "-s", "-i", os.path.join(d, "patch.diff")], cwd=tmp, capture_output=True, text=True)
        if r.returncode != 0:
            return sid, meta["breaks_property"], None, "patch does not apply: " + (r.stdout + r.stderr).strip()[:200]
        checks = [meta["breaks_property"]]
        if extra:
            checks += [c for c in meta.get("caught_by", []) if c not in checks]
        for pid in checks:
            for sd in seeds:
                c = subprocess.run(
                    [os.path.join(VERIF, "check"), pid, "--tier", "quick", "--no-evidence"],
                    capture_output=True,
                    text=True,
                    env=dict(os.environ, PDESY_REPO=tmp, VERIF_MAX_BUCKETS="1", VERIF_SEED=str(sd)),
                )
                m = re.search(r"evaluations=(\d+)", c.stdout)
                viol = [l.strip() for l in c.stdout.splitlines() if l.startswith("  violated")]
                out["%s@seed%s" % (pid, sd)] = {"exit": c.returncode, "evaluations": int(m.group(1)) if m else None, "first": viol[0][:240] if viol else None}
    finally:
        shutil.rmtree(tmp, ignore_errors=True)
    meta["recheck"] = out
    json.dump(meta, open(os.path.join(d, "meta.json"), "w"), indent=1, sort_keys=True)
    return sid, meta["breaks_property"], out, None


def main():
    ap = argparse.ArgumentParser()
    ap.add_argument("ids", nargs="*")
    ap.add_argument("--jobs", type=int, default=3)
    ap.add_argument("--seeds", default="1")
    ap.add_argument("--extra", action="store_true")
    a = ap.parse_args()
    ids = a.ids or sorted(os.listdir(os.path.join(VERIF, "seeded")))
    seeds = [int(x) for x in a.seeds.split(",")]
    missed = []
    with multiprocessing.get_context("fork").Pool(a.jobs) as pool:
        for sid, pid, out, err in pool.imap(one, [(s, seeds, a.extra) for s in ids]):
            if err:
                print("%-48s %s" % (sid, err))
                missed.append(sid)
                continue
            tgt = out["%s@seed%s" % (pid, seeds[0])]
            others = sorted(set(k.split("@")[0] for k, v in out.items() if v["exit"] == 1 and not k.startswith(pid + "@")))
            print("%-48s %s: %s%s" % (sid, pid, " ".join("%s=%s/%s" % (k.split("@")[1], v["exit"], v["evaluations"]) for k, v in out.items() if k.startswith(pid + "@")), ("  also " + ",".join(others)) if others else ""))
            sys.stdout.flush()
            if tgt["exit"] != 1:
                missed.append(sid)
    print("not caught by the target check at seed %d:" % seeds[0], missed or "none")
    return 1 if missed else 0


if __name__ == "__main__":
    sys.exit(main())
