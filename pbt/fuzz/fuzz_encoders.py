#!/venv/bin/python
"""atheris (libFuzzer) target: the four Gantt run-length encoders against the reference encoder (C19)."""
import os
import sys

import atheris

VERIF = os.path.dirname(os.path.dirname(os.path.dirname(os.path.abspath(__file__))))
sys.path.insert(0, VERIF)
with atheris.instrument_imports(include=["pDESy.model.base_task", "pDESy.model.base_component", "pDESy.model.base_worker", "pDESy.model.base_facility"]):
    from pbt import spec as S  # noqa: F401
from pbt.core import Result  # noqa: E402
from pbt.props import c19  # noqa: E402

KINDS = ["task", "comp", "worker", "fac"]
MARGINS = [0.0, 0.5, 1.0, 2.0, 0.3]


def TestOneInput(data):
    if len(data) < 2:
        return
    kind = KINDS[data[0] % 4]
    margin = MARGINS[data[1] % len(MARGINS)]
    states = c19.T_STATES if kind in ("task", "comp") else c19.R_STATES
    seq = [states[b % len(states)] for b in data[2:]]
    res = Result()
    c19.check_encoder(kind, seq, margin, res)
    if res.violations:
        print("ORACLE-FAILURE %s" % res.violations[0].detail)
        sys.stdout.flush()
        raise RuntimeError(res.violations[0].detail)


if __name__ == "__main__":
    atheris.Setup(sys.argv, TestOneInput)
    atheris.Fuzz()
