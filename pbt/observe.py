"""Step observer: live snapshots at the four hook phases of BaseProject.simulate, fault injection."""
from . import spec as S

PHASES = ("updated", "allocated", "performed", "recorded")


class InjectedFault(Exception):
    """Raised by the observer at a chosen (step, phase); never raised by pDESy itself."""


def snap(project):
    """Live snapshot of the whole model (plain tuples, cheap)."""
    tasks = {}
    for t in project.workflow.task_list:
        tasks[t.ID] = (
            int(t.state),
            float(t.remaining_work_amount),
            tuple(w.ID for w in t.allocated_worker_list),
            tuple(f.ID for f in t.allocated_facility_list),
            t.est,
            t.eft,
            t.lst,
            t.lft,
        )
    workers = {}
    facs = {}
    wps = {}
    for tm in project.organization.team_list:
        for w in tm.worker_list:
            workers[w.ID] = (int(w.state), tuple(t.ID for t in w.assigned_task_list))
    for wp in project.organization.workplace_list:
        wps[wp.ID] = tuple(c.ID for c in wp.placed_component_list)
        for f in wp.facility_list:
            facs[f.ID] = (int(f.state), tuple(t.ID for t in f.assigned_task_list))
    comps = {}
    for c in project.product.component_list:
        comps[c.ID] = (
            int(c.state),
            c.placed_workplace.ID if c.placed_workplace is not None else None,
        )
    return {
        "time": project.time,
        "cpl": project.workflow.critical_path_length,
        "tasks": tasks,
        "workers": workers,
        "facs": facs,
        "comps": comps,
        "wps": wps,
    }


# indices into the task tuple of a snapshot
T_STATE, T_REM, T_AW, T_AF, T_EST, T_EFT, T_LST, T_LFT = range(8)


class Observer(object):
    """Collects snapshots per step; optionally raises InjectedFault at (call_index, phase).

    steps: list of dicts phase -> snapshot, one dict per pass of the simulate loop (the last pass
    of a run has only 'updated': the loop exits right after the update).
    """

    def __init__(self, phases=PHASES, fault=None, extra=None):
        self.phases = set(phases)
        self.fault = fault  # (step index counted from installation, phase) or None
        self.steps = []
        self.extra = extra  # optional callback(project, phase) run before snapshotting
        self.calls = 0

    def __call__(self, project, phase):
        if phase == "updated":
            self.steps.append({})
        self.calls += 1
        if self.extra is not None:
            self.extra(project, phase)
        if phase in self.phases:
            self.steps[-1][phase] = snap(project)
        if self.fault is not None:
            fstep, fphase = self.fault
            if fphase == phase and len(self.steps) - 1 == fstep:
                raise InjectedFault("injected at step %d phase %s" % (fstep, phase))

    def install(self, project):
        project._verif_observer = self
        return self

    @staticmethod
    def uninstall(project):
        if hasattr(project, "_verif_observer"):
            del project._verif_observer


def observed_run(spec, phases=PHASES, opts=None, **build_kw):
    """Build a fresh project from spec, simulate it under an observer. Returns (handles, observer)."""
    h = S.build(spec, **build_kw)
    obs = Observer(phases=phases).install(h.project)
    S.simulate(h.project, opts if opts is not None else spec.get("opts", S.default_opts()))
    Observer.uninstall(h.project)
    return h, obs
