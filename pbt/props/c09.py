"""C09 - simulation results are reproducible and independent of object identity."""
import json
import os
import subprocess
import sys
import tempfile

from hypothesis import strategies as st

from .. import gen
from .. import spec as S
from ..core import HarnessError, Result
from ..observe import Observer, T_REM, T_STATE

PID = "C09"
LEVEL = "exploration"
RULE = (
    "Hypothesis-generated models (profiles W/F/N, half of them in tie-rich mode: work amounts and skills from a "
    "2-value pool; SS/FF/SF and TSLACK/EST over-weighted) plus two hash assignments for tasks and components "
    "(permutations, all-equal, reversed) and a short operation history. Relations on the complete log dump, "
    "exact: R1 rebuild at other addresses (plain pDESy classes, junk allocated in between); R2 two runs with "
    "harness-controlled hash values of tasks/components (iteration order of the library's internal sets); "
    "R3 simulate again on the same object, also after backward_simulate (with and without considering_due_time_of_tail_tasks) / initialize / insert+remove absence / "
    "simulate() with default arguments, and a fresh project simulated with default arguments afterwards (no "
    "hidden state); R7 the same model with other task ID strings (reverse lexicographic order) gives the same result up to the renaming; R6 after a cut run: on models whose behaviour does not depend on the absolute time (no absence lists, no task complete from the start, not FIFO) simulate(initialize_state_info=True, initialize_log_info=False) after a run cut short by max_time appends exactly the log of a fresh run; R5 warm start: the model is obtained by editing, in place, the objects of another model that has "
    "already been simulated (morph), or by swapping freshly built product/workflow/organization into a used project "
    "object (graft) - the result must equal the fresh build; R4 (thorough) the same batch of specs simulated in child processes with other "
    'History op sim_other = an earlier run with every option set the other way (auto-task flag, rule, absence steps). '
    "PYTHONHASHSEED values. Non-trivial = the reference run has two FF/SF-linked tasks whose finish checks fall "
    "in the same step, or two competing READY/WORKING tasks with equal priority key; distinct by spec hash."
)
ASSUMPTIONS = [
    "deterministic skills (sd 0)",
    "set iteration order is steered through __hash__ of harness subclasses of BaseTask/BaseComponent; helper "
    "tasks created inside backward_simulate are plain BaseTasks whose order cannot be steered",
]
TECHNIQUE = "property-based testing (Hypothesis): differential/metamorphic dump equality under rebuilds, controlled hash orders, repetition, fresh processes"
LEVEL_TEXT = (
    "Generated-input search with differential oracles (the implementation against itself under a changed "
    "schedule/identity, which is exactly what the property quantifies over); not a proof."
)
LEVEL_NOTE = "Trusts the dump (all per-step logs, time, costs, status) and the hash-controlled subclasses."

CFG = gen.Cfg(onesided=4, servable=3, due=True, 
    facilities=True,
    kinds=[0, 0, 1, 2, 2, 3, 3],
    tie_rich=2,
    rules=[0, 0, 0, 1, 1, 2, 3, 4, 4, 5, 6, 7, 8],
    max_time=[40],
    inputs=False,
    chain_components=True,
)
# nested products only without workplaces here: backward_simulate reverses the dependencies, which turns the
# assembly form around (parent tasks first) and leads into the nested-placement findings D-PLC2..4 of C13
CFG_N = CFG.copy(nested="free", max_wps=0, multi_parent=2)

# models on which relation R6 applies: no absence lists, nothing complete from the start, no FIFO
CFG_R6 = CFG.copy(worker_abs=False, project_abs=False, progress=False, rules=[0, 0, 1, 2, 3, 5, 6, 7, 8], servable=2, max_time=[60])

OPS = ["sim", "sim_default", "sim_other", "sim_other", "backward", "backward_due", "backward_due", "init", "insert_remove", "resim"]


@st.composite
def _case(draw, cfg):
    spec = draw(gen.model_spec(cfg))
    n = len(spec["tasks"])
    nc = len(spec["comps"])

    def hv(m):
        return draw(
            st.one_of(
                st.permutations(list(range(m))),
                st.just([0] * m),
                st.just(list(reversed(range(m)))),
                st.lists(st.integers(0, 3), min_size=m, max_size=m),
            )
        )

    return {
        "spec": spec,
        "th": [list(hv(n)), list(hv(n))],
        "ch": [list(hv(nc)), list(hv(nc))],
        "ops": draw(st.lists(st.sampled_from(OPS), max_size=3)),
        "junk": draw(st.integers(1, 50)),
        "warm": draw(st.sampled_from([[], [], ["morph"], ["graft"], ["morph", "graft"]])),
        "r6": draw(st.sampled_from([0, 1, 2, 3, 5])),
        "relabel": draw(st.booleans()),
    }


# option carry-over: many automatic tasks, absence steps early in the run, the flag off in the compared run and on
# in an earlier run on the same project object
CFG_AUTO = CFG.copy(p_auto=2, abs_max=8, worker_abs=False, nested=False, servable=3, max_tasks=6)


@st.composite
def _case_dense(draw, cfg):
    """Several equally skilled facilities per workplace and per-task facility rules: ties everywhere, so that
    whatever a run leaves behind in the order of a list shows in the next run."""
    case = draw(_case(cfg))
    spec = draw(gen.dense_pairs_spec(cfg, max_workers=3))
    case["spec"] = spec
    n, nc = len(spec["tasks"]), len(spec["comps"])
    case["th"] = [list(range(n)), list(reversed(range(n)))]
    case["ch"] = [list(range(nc)), list(reversed(range(nc)))]
    return case


@st.composite
def _case_auto(draw, cfg):
    case = draw(_case(cfg))
    o = case["spec"]["opts"]
    o["auto_abs"] = False
    if not o["abs"]:
        o["abs"] = draw(st.lists(st.integers(0, 8), unique=True, min_size=1, max_size=4))
    case["ops"] = ["sim_other"] + case["ops"][:1]
    return case


def strategy(tier):
    if tier == "quick":
        return st.one_of(_case(CFG), _case(CFG), _case(CFG_N), _case(CFG_R6), _case_auto(CFG_AUTO), _case_dense(CFG.copy(min_wps=1, min_comps=1, max_facs_per_wp=3)))
    big = dict(max_tasks=10, max_workers=7)
    return st.one_of(_case(CFG.copy(**big)), _case(CFG.copy(**big)), _case(CFG_N.copy(**big)), _case(CFG_R6.copy(**big)), _case_auto(CFG_AUTO.copy(max_tasks=9)), _case_dense(CFG.copy(min_wps=1, min_comps=1, max_facs_per_wp=3, max_tasks=9)))


def budget(tier):
    if tier == "quick":
        return {"cases": 1600, "shards": 4}
    return {"cases": 96000, "shards": 16}


def _time_shift_invariant(spec):
    if spec["opts"].get("abs") or spec["opts"].get("rule") == 4:
        return False
    if any(w.get("abs") for w in spec["workers"]) or any(f.get("abs") for f in spec["facs"]):
        return False
    return not any(t.get("prog", 0.0) >= 1.0 - 1e-10 for t in spec["tasks"])


def _strip(d, t0):
    """The dump without the first t0 entries of every per-step log (and time counted from t0)."""
    if isinstance(d, dict):
        return {k: (v - t0 if k == "time" else _strip(v, t0)) for k, v in d.items()}
    if isinstance(d, list):
        return d[t0:]
    return d


def _run(spec, **kw):
    h = S.build(spec, **kw)
    S.simulate(h.project, spec["opts"])
    return h


def _sig(diffs):
    if not diffs:
        return ""
    return ""  # one bucket per relation


def _classify(spec, res):
    """reference run under the observer: is the case in a tie class?"""
    h = S.build(spec)
    obs = Observer(phases=("updated", "recorded")).install(h.project)
    S.simulate(h.project, spec["opts"])
    Observer.uninstall(h.project)
    tie_finish = False
    tie_key = False
    rule = spec["opts"]["rule"]
    for s, d in enumerate(obs.steps):
        rec = d.get("recorded")
        if rec is not None and not tie_finish:
            for a, b, k in spec["deps"]:
                if k in (S.FF, S.SF):
                    ta, tb = rec["tasks"][S.tid(a)], rec["tasks"][S.tid(b)]
                    if ta[T_STATE] == S.WORKING and tb[T_STATE] == S.WORKING and ta[T_REM] < 1e-10 and tb[T_REM] < 1e-10:
                        tie_finish = True
        upd = d.get("updated")
        if upd is not None and not tie_key and rule in (0, 1):
            keys = []
            for i, t in enumerate(spec["tasks"]):
                tt = upd["tasks"][S.tid(i)]
                if tt[T_STATE] in (S.READY, S.WORKING) and not t["auto"]:
                    keys.append(tt[6] - tt[4] if rule == 0 else tt[4])
            if len(keys) != len(set(keys)):
                tie_key = True
    res.cls("tie_finish_FF_SF", tie_finish)
    res.cls("tie_priority_key", tie_key)
    res.cls("non_FS", any(k != 0 for _, _, k in spec["deps"]))
    res.cls("nested", any(c.get("parent") is not None for c in spec["comps"]))
    return h, (tie_finish or tie_key)


def check(case):
    res = Result()
    spec = case["spec"]
    res.key = S.spec_hash(spec)
    href, nt = _classify(spec, res)
    res.nontrivial = nt
    dref = S.dump(href.project)

    # R1: rebuild at different addresses
    h1 = _run(spec, junk=case.get("junk", 7))
    d1 = S.dump(h1.project)
    if d1 != dref:
        diffs = S.diff_dumps(dref, d1)
        res.fail("C09.R1_rebuild", "rebuilding and re-running the same model gave another result: %s" % "; ".join(diffs[:3]), sig=_sig(diffs))

    # R2: controlled hash orders
    da = S.dump(_run(spec, task_hashes=case["th"][0], comp_hashes=case["ch"][0]).project)
    db = S.dump(_run(spec, task_hashes=case["th"][1], comp_hashes=case["ch"][1]).project)
    if da != db:
        diffs = S.diff_dumps(da, db)
        res.fail("C09.R2_hash_order", "two hash assignments of tasks/components gave different results: %s" % "; ".join(diffs[:3]), sig=_sig(diffs))
    elif da != dref:
        diffs = S.diff_dumps(dref, da)
        res.fail("C09.R2_vs_plain", "hash-controlled run differs from the plain run: %s" % "; ".join(diffs[:3]), sig=_sig(diffs))

    # R5: objects that have already lived (spec.warm_build: another model of the same shape was simulated on them,
    # then they were edited in place / swapped into the old project object) give the result of a fresh build
    for mode in case.get("warm", []):
        hw = S.warm_build(dict(spec, warm={"mode": mode, "k": case.get("junk", 1) % 3 + 1}))
        S.simulate(hw.project, spec["opts"])
        dw = S.dump(hw.project)
        res.cls("warm_" + mode)
        if dw != dref:
            diffs = S.diff_dumps(dref, dw)
            res.fail("C09.R5_warm_start", "a model edited into this spec after an earlier run (%s) differs from the fresh build: %s" % (mode, "; ".join(diffs[:3])), sig=mode)

    # R7: task IDs are labels (random uuids unless given): the same model with other ID strings - here in the reverse
    # lexicographic order - gives the same result up to that renaming
    if case.get("relabel"):
        old_ids = [S.tid(i) for i in range(len(spec["tasks"]))]
        h7 = S.build(dict(spec, task_ids="rev"))
        new_ids = [S.tid(i) for i in range(len(spec["tasks"]))]
        S.simulate(h7.project, spec["opts"])
        d7 = S.dump(h7.project)
        S.set_style(spec)
        back = dict(zip(new_ids, old_ids))
        d7["tasks"] = {back[k]: v for k, v in d7["tasks"].items()}
        for sect in ("workers", "facs"):
            for e in d7[sect].values():
                e["assigned"] = [None if x is None else [back[t] for t in x] for x in e["assigned"]]
        res.cls("R7_relabelled")
        if d7 != dref:
            diffs = S.diff_dumps(dref, d7)
            res.fail("C09.R7_task_ids", "the same model with other task ID strings gives another result: %s" % "; ".join(diffs[:3]))

    # R6: a run that was cut short by max_time leaves nothing behind that survives a state reset. On models without
    # absence lists, without tasks that are complete from the start and under a rule other than FIFO (which counts log
    # entries) the simulation does not depend on the absolute time, so simulate(initialize_state_info=True,
    # initialize_log_info=False) after a cut run must append exactly the log of a fresh run to the steps already there.
    if case.get("r6") and _time_shift_invariant(spec):
        hb = S.build(spec)
        S.simulate(hb.project, dict(spec["opts"], max_time=int(case["r6"])))
        t0 = int(hb.project.time)
        S.simulate(hb.project, dict(spec["opts"], max_time=spec["opts"]["max_time"] + t0), initialize_state_info=True, initialize_log_info=False)
        db = _strip(S.dump(hb.project), t0)
        res.cls("R6_appended_run")
        if db != dref:
            diffs = S.diff_dumps(dref, db)
            res.fail("C09.R6_after_cut_run", "state-initialized run appended to a run cut at max_time=%s differs from a fresh run: %s" % (case["r6"], "; ".join(diffs[:3])))

    # R3: repetition on one object / no hidden state
    p = href.project
    for op in case.get("ops", []):
        res.cls("op_" + op)
        if op == "sim":
            S.simulate(p, spec["opts"])
        elif op == "sim_default":
            import warnings

            with warnings.catch_warnings():
                warnings.simplefilter("ignore")
                p.simulate(max_time=spec["opts"]["max_time"])
        elif op == "sim_other":
            # an earlier run with every option set the other way (flag flipped, other rule, other absence steps)
            o = spec["opts"]
            S.simulate(p, dict(o, auto_abs=True if not o.get("auto_abs") else False, rule=(o.get("rule", 0) + 3) % 9, abs=sorted(set([1, 2, 3, 6]) ^ set(o.get("abs", [])))))
        elif op == "backward":
            S.backward_simulate(p, spec["opts"])
        elif op == "backward_due":
            S.backward_simulate(p, spec["opts"], considering_due_time_of_tail_tasks=True)
        elif op == "init":
            p.initialize()
        elif op == "insert_remove":
            if p.time > 0:
                p.insert_absence_time_list([1, 3])
                p.remove_absence_time_list()
        elif op == "resim":
            S.simulate(p, spec["opts"])
            S.simulate(p, spec["opts"])
    S.simulate(p, spec["opts"])
    d3 = S.dump(p)
    if d3 != dref:
        diffs = S.diff_dumps(dref, d3)
        res.fail(
            "C09.R3_repetition",
            "simulate() on an already used project (after %s) differs from the first run: %s" % (case.get("ops"), "; ".join(diffs[:3])),
            sig=_sig(diffs),
        )
    # hidden process-wide state: a fresh project simulated with *default* arguments
    if S.defaults_polluted():
        res.fail("C09.R3_default_arguments_polluted", "after the history %s the default absence_time_list of simulate() is no longer empty" % case.get("ops"))
    return res


# ---------------------------------------------------------------------------------------------
# R4 (thorough): fresh processes with other PYTHONHASHSEED values
# ---------------------------------------------------------------------------------------------
_CHILD = r"""
import sys, json
sys.path.insert(0, %(verif)r)
from pbt import spec as S
specs = json.load(open(sys.argv[1]))
junk = [object() for _ in range(int(sys.argv[3]))]
out = []
for spec in specs:
    h = S.build(spec)
    S.simulate(h.project, spec["opts"])
    out.append(S.dump(h.project))
json.dump(out, open(sys.argv[2], "w"))
"""


def extra(tier, seed):
    import hypothesis
    from hypothesis import HealthCheck, Phase, given, settings

    n = 40 if tier == "quick" else 600
    specs = []

    @hypothesis.seed(seed * 1000 + 999)
    @settings(max_examples=n, database=None, deadline=None, phases=[Phase.generate], suppress_health_check=list(HealthCheck))
    @given(_case(CFG))
    def collect(case):
        specs.append(case["spec"])

    collect()
    verif = os.path.dirname(os.path.dirname(os.path.dirname(os.path.abspath(__file__))))
    tmp = tempfile.mkdtemp(prefix="c09_r4_")
    failures = []
    nt = set()
    try:
        json.dump(specs, open(os.path.join(tmp, "specs.json"), "w"))
        dumps = []
        for i, hs in enumerate(["0", "1", "12345"] if tier == "quick" else ["0", "1", "7", "12345", "99991"]):
            outp = os.path.join(tmp, "out%d.json" % i)
            env = dict(os.environ, PYTHONHASHSEED=hs, PDESY_VERIF="1")
            r = subprocess.run(
                [sys.executable, "-c", _CHILD % {"verif": verif}, os.path.join(tmp, "specs.json"), outp, str(1000 * i + 3)],
                env=env,
                capture_output=True,
                text=True,
            )
            if r.returncode != 0:
                raise HarnessError("R4 child failed: %s" % r.stderr[-2000:])
            dumps.append(json.load(open(outp)))
        for j, spec in enumerate(specs):
            for i in range(1, len(dumps)):
                if dumps[i][j] != dumps[0][j]:
                    diffs = S.diff_dumps(dumps[0][j], dumps[i][j])
                    failures.append(
                        {
                            "bucket": "C09.R4_fresh_process|" + _sig(diffs),
                            "clause": "C09.R4_fresh_process",
                            "detail": "fresh processes (PYTHONHASHSEED differs) gave different results: %s" % "; ".join(diffs[:3]),
                            "case": {"spec": spec, "th": [[0] * len(spec["tasks"])] * 2, "ch": [[0] * len(spec["comps"])] * 2, "ops": [], "junk": 3},
                        }
                    )
                    break
            if any(k != 0 for _, _, k in spec["deps"]):
                nt.add("r4:" + S.spec_hash(spec))
    finally:
        import shutil

        shutil.rmtree(tmp, ignore_errors=True)
    return {
        "evals": len(specs),
        "nt": nt,
        "failures": failures[:3],
        "stats": {"R4_specs": len(specs), "R4_processes": len(dumps)},
        "coverage": {"R4_fresh_process_specs": len(specs), "R4_processes": len(dumps)},
    }
