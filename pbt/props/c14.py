"""C14 - a component's state is determined by the states of its tasks."""
from .. import gen
from .. import simcheck
from ..core import Result

PID = "C14"
LEVEL = "exploration"
RULE = (
    'Hypothesis-generated products and workflows (0-5 components, flat and nested, arbitrary task-to-component assignment, components without tasks, mixed default progress) simulated once. Oracle per step on the live updated/allocated/recorded snapshots and on the logs: FINISHED <=> all tasks FINISHED, any task WORKING => WORKING, not NONE while a task is READY/WORKING, never back to NONE, never leaves FINISHED. Non-trivial = a component whose tasks were in different states at some step; distinct by spec hash.'
)
ASSUMPTIONS = [
    "skill standard deviations are 0 (deterministic skills); unit_time=1; task_performed_mode='multi-workers'",
    "generated models respect the implicit preconditions of DESIGN.md section 4 (unique IDs/names, acyclic graph, forest products)",
]
TECHNIQUE = 'property-based testing (Hypothesis): generated products, component/task state relation on live snapshots and logs'
LEVEL_TEXT = 'Generated-input search with a relational invariant between component and task states at every step; not a proof.'
LEVEL_NOTE = 'Trusts the step observer and the builder.'

CFG = gen.Cfg(facilities=True, nested="assembly", max_time=[40, 80])
# arbitrary forests with arbitrary task assignment: only without workplaces (placement of nested
# products outside the assembly form crashes, known finding D-PLC4 of C13)
CFG_FREE = gen.Cfg(facilities=True, nested="free", max_wps=0, max_time=[40, 80])


def strategy(tier):
    from hypothesis import strategies as st

    if tier == "quick":
        return st.one_of(gen.model_spec(CFG), gen.model_spec(CFG_FREE))
    return st.one_of(
        gen.model_spec(CFG.copy(max_tasks=12, max_comps=7)),
        gen.model_spec(CFG_FREE.copy(max_tasks=12, max_comps=7)),
    )


def budget(tier):
    if tier == "quick":
        return {"cases": 2000, "shards": 4}
    return {"cases": 150000, "shards": 16}


def check(spec):
    res = Result()
    sim = simcheck.Sim(spec)
    simcheck.check_c14(sim, res)
    return res
