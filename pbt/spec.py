"""Model spec (a pure JSON dict) -> fresh pDESy project; dump of all logs; global-state hygiene.

The spec, never the object graph, is what the generators produce, what is hashed for
`distinct_nontrivial`, what is printed as a sample and what a replay file contains.

Spec layout (all indices are positions in the spec's own lists):

  tasks : [{work, prog, auto, nf, comp, wpr, wr, fr, fixw, fixf, due, rate, sub?}]
  deps  : [[pred, succ, kind]]            pred < succ (acyclic by construction), kind 0..3 = FS,SS,FF,SF
  order : permutation of range(len(tasks)) = order of workflow.task_list (optional)
  comps : [{space, parent, extra_tasks?: [task]}]   extra_tasks = tasks listed by the component only (no back link)
  teams : [{targets: [task], notask?: [task]}]   notask = links kept on the team/workplace side only
  workers: [{team, cost, solo, skills: {str(task): v}, fsk: {str(facility): v}, abs: [int], mw: wp|None}]
  wps   : [{cap, targets: [task], inputs: [wp]}]
  facs  : [{wp, cost, solo, skills: {str(task): v}, abs: [int]}]
  opts  : {rule, abs, auto_abs, max_time}
"""
import datetime
import hashlib
import json
import os
import sys
import warnings

REPO = os.environ.get("PDESY_REPO", "/repo")
if not sys.path or sys.path[0] != REPO:
    sys.path.insert(0, REPO)
os.environ["PDESY_VERIF"] = "1"

import pDESy  # noqa: E402

if not os.path.realpath(pDESy.__file__).startswith(os.path.realpath(REPO) + os.sep):
    raise RuntimeError(
        "harness error: pDESy imported from %s, not from %s" % (pDESy.__file__, REPO)
    )

from pDESy.model.base_component import BaseComponent, BaseComponentState  # noqa: E402,F401
from pDESy.model.base_facility import BaseFacility, BaseFacilityState  # noqa: E402,F401
from pDESy.model.base_organization import BaseOrganization  # noqa: E402
from pDESy.model.base_priority_rule import (  # noqa: E402,F401
    ResourcePriorityRuleMode,
    TaskPriorityRuleMode,
    WorkplacePriorityRuleMode,
)
from pDESy.model.base_product import BaseProduct  # noqa: E402
from pDESy.model.base_project import BaseProject, BaseProjectStatus  # noqa: E402,F401
from pDESy.model.base_subproject_task import BaseSubProjectTask  # noqa: E402,F401
from pDESy.model.base_task import BaseTask, BaseTaskDependency, BaseTaskState  # noqa: E402,F401
from pDESy.model.base_team import BaseTeam  # noqa: E402
from pDESy.model.base_worker import BaseWorker, BaseWorkerState  # noqa: E402,F401
from pDESy.model.base_workflow import BaseWorkflow  # noqa: E402
from pDESy.model.base_workplace import BaseWorkplace  # noqa: E402

NONE, READY, WORKING, FINISHED = 0, 1, 2, -1  # BaseTaskState / BaseComponentState values
R_FREE, R_WORKING, R_ABSENCE = 0, 1, -1  # BaseWorkerState / BaseFacilityState values
FS, SS, FF, SF = 0, 1, 2, 3

INIT_DT = datetime.datetime(2020, 4, 1, 8, 0, 0)
UNIT_TD = datetime.timedelta(days=1)


# --------------------------------------------------------------------------------------------
# naming
# --------------------------------------------------------------------------------------------
# ID / name style of the spec being built (set by build(); reset by the runner before every case).
# "flat": objects of different kinds share ID strings ("0", "1", ...; lookups are per kind, so this is legal);
# names: optional list of task names (duplicates allowed; skills are per name).
# default_names: workers, teams, workplaces and components all carry the library's default name of their kind
# ("New Worker", ...), as objects created without a name do; facility names stay unique (operators' facility skills
# are keyed by facility name).
_STYLE = {"ids": None, "names": None, "default_names": False, "task_ids": None}


def set_style(spec=None):
    _STYLE["ids"] = spec.get("ids") if spec else None
    _STYLE["names"] = spec.get("names") if spec else None
    _STYLE["default_names"] = bool(spec.get("default_names")) if spec else False
    _STYLE["task_ids"] = spec.get("task_ids") if spec else None  # "rev": task ID strings in reverse lexicographic order


def _id(prefix, i):
    if _STYLE["ids"] == "flat":
        return str(i)
    if _STYLE["ids"] == "prefix":
        # every ID of a kind is a proper prefix of the next one ("w", "wx", "wxx", ...): equal is not "contained in"
        return prefix + "x" * i
    return prefix + str(i)


def tid(i):
    if _STYLE["task_ids"] == "rev":
        return "z%03d" % (500 - i)
    return _id("t", i)


def tname(i):
    names = _STYLE["names"]
    return names[i] if names and i < len(names) else "T" + str(i)


def wid(i):
    return _id("w", i)


def wname(i):
    return "New Worker" if _STYLE["default_names"] else "W" + str(i)


def cname(i):
    return "New Component" if _STYLE["default_names"] else "C" + str(i)


def tmname(i):
    return "New Team" if _STYLE["default_names"] else "TM" + str(i)


def wpname(i):
    return "New Workplace" if _STYLE["default_names"] else "WP" + str(i)


def fid(i):
    return _id("f", i)


def fname(i):
    return "F" + str(i)


def cid(i):
    return _id("c", i)


def tmid(i):
    return _id("tm", i)


def wpid(i):
    return _id("wp", i)


def canonical(spec):
    return json.dumps(spec, sort_keys=True, separators=(",", ":"))


def spec_hash(spec):
    return hashlib.sha1(canonical(spec).encode()).hexdigest()[:16]


# --------------------------------------------------------------------------------------------
# harness-only subclasses with a controlled hash (never used by JSON properties)
# --------------------------------------------------------------------------------------------
class HTask(BaseTask):
    """BaseTask whose hash is chosen by the harness (set iteration order under control)."""

    _vh = 0

    def __hash__(self):
        return self._vh


class HComponent(BaseComponent):
    """BaseComponent with harness-chosen hash; also counts moves per step."""

    _vh = 0

    def __hash__(self):
        return self._vh

    def set_placed_workplace(self, placed_workplace, set_to_all_children=True):
        if not hasattr(self, "_assignments"):
            self._assignments = []
        self._assignments.append(placed_workplace.ID if placed_workplace is not None else None)
        BaseComponent.set_placed_workplace(self, placed_workplace, set_to_all_children=set_to_all_children)


class Handles(object):
    """Objects of a built project, by spec index."""

    def __init__(self):
        self.tasks = []
        self.comps = []
        self.teams = []
        self.workers = []
        self.wps = []
        self.facs = []
        self.project = None


def default_opts():
    return {"rule": 0, "abs": [], "auto_abs": False, "max_time": 200}


def build(spec, task_hashes=None, comp_hashes=None, junk=0):
    """Build a fresh project from `spec`. Returns Handles.

    task_hashes / comp_hashes: optional list of ints -> use HTask / HComponent with these hashes.
    junk: allocate that many throw-away objects first (different memory addresses).
    """
    _junk = [object() for _ in range(junk)]  # noqa: F841
    set_style(spec)
    h = Handles()
    tspecs = spec.get("tasks", [])
    for i, t in enumerate(tspecs):
        kw = dict(
            name=tname(i),
            ID=tid(i),
            default_work_amount=t.get("work", 1.0),
            work_amount_progress_of_unit_step_time=t.get("rate", 1.0),
            workplace_priority_rule=WorkplacePriorityRuleMode(t.get("wpr", 0)),
            worker_priority_rule=ResourcePriorityRuleMode(t.get("wr", -1)),
            facility_priority_rule=ResourcePriorityRuleMode(t.get("fr", 0)),
            need_facility=bool(t.get("nf", False)),
            default_progress=t.get("prog", 0.0),
            due_time=t.get("due", -1),
            auto_task=bool(t.get("auto", False)),
            fixing_allocating_worker_id_list=(
                [wid(k) for k in t["fixw"]] if t.get("fixw") is not None else None
            ),
            fixing_allocating_facility_id_list=(
                [fid(k) for k in t["fixf"]] if t.get("fixf") is not None else None
            ),
        )
        if t.get("sub"):
            sub = t["sub"] if isinstance(t["sub"], dict) else {}
            if "unit_s" in sub:
                kw["unit_timedelta"] = datetime.timedelta(seconds=sub["unit_s"])
            if "file" in sub:
                kw["file_path"] = sub["file"]
            if "read" in sub:
                kw["read_json_file"] = bool(sub["read"])
            if "rm_abs" in sub:
                kw["remove_absence_time_list"] = bool(sub["rm_abs"])
            task = BaseSubProjectTask(**kw)
        elif task_hashes is not None:
            task = HTask(**kw)
            task._vh = int(task_hashes[i])
        else:
            task = BaseTask(**kw)
        h.tasks.append(task)
    cspecs = spec.get("comps", [])
    for i, c in enumerate(cspecs):
        kw = dict(name=cname(i), ID=cid(i), space_size=c.get("space", 1.0))
        if comp_hashes is not None:
            comp = HComponent(**kw)
            comp._vh = int(comp_hashes[i])
        else:
            comp = BaseComponent(**kw)
        h.comps.append(comp)
    for i, tm in enumerate(spec.get("teams", [])):
        h.teams.append(BaseTeam(name=tmname(i), ID=tmid(i)))
    for i, w in enumerate(spec.get("workers", [])):
        worker = BaseWorker(
            name=wname(i),
            ID=wid(i),
            cost_per_time=w.get("cost", 0.0),
            solo_working=bool(w.get("solo", False)),
            workamount_skill_mean_map={
                tname(int(k)): v for k, v in w.get("skills", {}).items()
            },
            workamount_skill_sd_map={},
            facility_skill_map={fname(int(k)): v for k, v in w.get("fsk", {}).items()},
            quality_skill_mean_map={tname(int(k)): v for k, v in w.get("q", {}).items()},
            absence_time_list=list(w.get("abs", [])),
            main_workplace_id=(wpid(w["mw"]) if w.get("mw") is not None else None),
        )
        h.teams[w["team"]].add_worker(worker)
        h.workers.append(worker)

    for i, wp in enumerate(spec.get("wps", [])):
        workplace = BaseWorkplace(
            name=wpname(i), ID=wpid(i), max_space_size=wp.get("cap", 1.0)
        )
        h.wps.append(workplace)
    for i, f in enumerate(spec.get("facs", [])):
        facility = BaseFacility(
            name=fname(i),
            ID=fid(i),
            cost_per_time=f.get("cost", 0.0),
            solo_working=bool(f.get("solo", False)),
            workamount_skill_mean_map={
                tname(int(k)): v for k, v in f.get("skills", {}).items()
            },
            workamount_skill_sd_map={},
            absence_time_list=list(f.get("abs", [])),
        )
        h.wps[f["wp"]].add_facility(facility)
        h.facs.append(facility)

    _wire(h, spec)
    order = spec.get("order")
    if order is None:
        order = list(range(len(h.tasks)))
    h.project = BaseProject(
        init_datetime=INIT_DT,
        unit_timedelta=UNIT_TD,
        product=BaseProduct(list(h.comps)),
        workflow=BaseWorkflow([h.tasks[i] for i in order]),
        organization=BaseOrganization(team_list=list(h.teams), workplace_list=list(h.wps)),
    )
    if spec.get("side_wf"):
        # a second workflow object over some of the tasks (a phase picked out for a report), made after the project
        h.side_workflow = BaseWorkflow([h.tasks[i] for i in spec["side_wf"] if i < len(h.tasks)])
    return h


def _wire(h, spec):
    """All relations of the model (dependencies, component tree, task<->component/team/workplace links, conveyor links).

    spec["extend"]: the relations are entered through the extend_* helpers (whole lists at once) where the order of
    the resulting lists is the same, else one by one through append_*."""
    tspecs = spec.get("tasks", [])
    cspecs = spec.get("comps", [])
    ext = bool(spec.get("extend"))
    by_succ = {}
    for pred, succ, kind in spec.get("deps", []):
        by_succ.setdefault(succ, []).append((pred, kind))
    if ext:
        for succ in sorted(by_succ):
            kinds = set(k for _, k in by_succ[succ])
            if len(kinds) == 1:
                h.tasks[succ].extend_input_task_list([h.tasks[p] for p, _ in by_succ[succ]], BaseTaskDependency(kinds.pop()))
            else:
                for pred, kind in by_succ[succ]:
                    h.tasks[succ].append_input_task(h.tasks[pred], BaseTaskDependency(kind))
        # (the order of every task's input list is as in the append style; output lists may differ in order when
        # successors are interleaved, so the extend style is only used when that cannot happen)
    else:
        for pred, succ, kind in spec.get("deps", []):
            h.tasks[succ].append_input_task(h.tasks[pred], BaseTaskDependency(kind))
    for i, c in enumerate(cspecs):
        if c.get("parent") is not None:
            h.comps[c["parent"]].append_child_component(h.comps[i])
        if c.get("parent2") is not None:
            h.comps[c["parent2"]].append_child_component(h.comps[i])
    for i, tm in enumerate(spec.get("teams", [])):
        h.teams[i].parent_team = h.teams[tm["parent"]] if tm.get("parent") is not None else None
    for i, wp in enumerate(spec.get("wps", [])):
        h.wps[i].parent_workplace = h.wps[wp["parent"]] if wp.get("parent") is not None else None
    if ext:
        for ci in range(len(cspecs)):
            ts = [h.tasks[i] for i, t in enumerate(tspecs) if t.get("comp") == ci]
            if ts:
                h.comps[ci].extend_targeted_task_list(ts)
    else:
        for i, t in enumerate(tspecs):
            if t.get("comp") is not None:
                h.comps[t["comp"]].append_targeted_task(h.tasks[i])
    for i, c in enumerate(cspecs):
        # one-sided links (what BaseComponent(targeted_task_list=[...]) gives): the component lists the task,
        # the task's target_component does not point back (it may point to another component)
        for k in c.get("extra_tasks", ()):
            h.comps[i].targeted_task_list.append(h.tasks[k])
    for groups, objs in ((spec.get("teams", []), h.teams), (spec.get("wps", []), h.wps)):
        for i, g in enumerate(groups):
            obj = objs[i]
            if ext and not g.get("notask"):
                obj.extend_targeted_task_list([h.tasks[k] for k in g.get("targets", [])])
                continue
            for k in g.get("targets", []):
                if k in g.get("notask", ()):
                    # one-sided link (what BaseTeam(targeted_task_list=[...]) gives): the team lists the
                    # task, the task does not list the team; the simulator only reads the team side
                    obj.targeted_task_list.append(h.tasks[k])
                else:
                    obj.append_targeted_task(h.tasks[k])
    for i, wp in enumerate(spec.get("wps", [])):
        if wp.get("inputs_onesided"):
            # what BaseWorkplace(input_workplace_list=[...]) gives: the feeding workplace does not list this one as output
            for k in wp.get("inputs", []):
                h.wps[i].input_workplace_list.append(h.wps[k])
        elif ext and wp.get("inputs"):
            h.wps[i].extend_input_workplace_list([h.wps[k] for k in wp["inputs"]])
        else:
            for k in wp.get("inputs", []):
                h.wps[i].append_input_workplace(h.wps[k])


# --------------------------------------------------------------------------------------------
# warm start: the observed run is not the first thing that happens to the objects
# --------------------------------------------------------------------------------------------
def perturb(spec, k):
    """A model of the same shape with other attribute values (values rotated by k among like objects)."""
    ps = json.loads(json.dumps(spec))
    ps.pop("warm", None)

    def rot(items, keys):
        n = len(items)
        if n < 2:
            return
        vals = [{kk: it.get(kk) for kk in keys} for it in items]
        for i, it in enumerate(items):
            src = vals[(i + k) % n]
            for kk in keys:
                if src[kk] is None and kk in ("notask", "q"):
                    it.pop(kk, None)
                else:
                    it[kk] = src[kk]

    rot(ps["workers"], ["cost", "solo", "skills", "abs", "mw", "fsk", "q"] + (["team"] if k % 2 == 0 else []))
    rot(ps["teams"], ["targets", "notask"])
    for tm in ps["teams"]:
        if tm.get("notask") is None:
            tm.pop("notask", None)
    rot(ps["facs"], ["cost", "solo", "skills", "abs"] + (["wp"] if k % 2 == 0 else []))
    rot([t for t in ps["tasks"] if not t.get("auto") and not t.get("sub")], ["work", "fixw", "wr"])
    if k % 2 == 1 and ps["comps"] and not any(c.get("parent") is not None for c in ps["comps"]):
        # flat product: in the other model every component-bound task sits on component 0, the other
        # components carry no task (and get theirs only when the model is edited)
        for t in ps["tasks"]:
            if t.get("comp") is not None:
                t["comp"] = 0
        for c in ps["comps"]:
            c.pop("extra_tasks", None)
    return ps


def morph(h, spec):
    """Edit the live objects of `h` (built from a spec of the same shape) in place until the model equals `spec`."""
    from .core import HarnessError

    if (
        len(h.tasks) != len(spec["tasks"])
        or len(h.comps) != len(spec["comps"])
        or len(h.teams) != len(spec["teams"])
        or len(h.workers) != len(spec["workers"])
        or len(h.wps) != len(spec["wps"])
        or len(h.facs) != len(spec["facs"])
    ):
        raise HarnessError("morph: the specs do not have the same shape")
    set_style(spec)
    # odd k: containers the user owns are edited in place (list[:] = ..., dict.clear()/update()), even k: replaced
    in_place = bool((spec.get("warm") or {}).get("k", 0) % 2)

    def put_list(obj, attr, values):
        cur = getattr(obj, attr)
        if in_place and isinstance(cur, list):
            cur[:] = values
        else:
            setattr(obj, attr, list(values))

    def put_dict(obj, attr, values):
        cur = getattr(obj, attr)
        if in_place and isinstance(cur, dict):
            cur.clear()
            cur.update(values)
        else:
            setattr(obj, attr, dict(values))

    for t in h.tasks:
        t.input_task_list = []
        t.output_task_list = []
        t.allocated_team_list = []
        t.allocated_workplace_list = []
        t.target_component = None
    for c in h.comps:
        c.parent_component_list = []
        c.child_component_list = []
        c.targeted_task_list = []
    for tm in h.teams:
        tm.targeted_task_list = []
    for wp in h.wps:
        wp.targeted_task_list = []
        wp.input_workplace_list = []
        wp.output_workplace_list = []
    for i, t in enumerate(spec["tasks"]):
        o = h.tasks[i]
        o.default_work_amount = t.get("work", 1.0)
        o.work_amount_progress_of_unit_step_time = t.get("rate", 1.0)
        o.workplace_priority_rule = WorkplacePriorityRuleMode(t.get("wpr", 0))
        o.worker_priority_rule = ResourcePriorityRuleMode(t.get("wr", -1))
        o.facility_priority_rule = ResourcePriorityRuleMode(t.get("fr", 0))
        o.need_facility = bool(t.get("nf", False))
        o.default_progress = t.get("prog", 0.0)
        o.due_time = t.get("due", -1)
        o.auto_task = bool(t.get("auto", False)) or bool(t.get("sub"))
        o.fixing_allocating_worker_id_list = [wid(k) for k in t["fixw"]] if t.get("fixw") is not None else None
        o.fixing_allocating_facility_id_list = [fid(k) for k in t["fixf"]] if t.get("fixf") is not None else None
    for i, c in enumerate(spec["comps"]):
        h.comps[i].space_size = c.get("space", 1.0)
    for i, w in enumerate(spec["workers"]):
        o = h.workers[i]
        if o.team_id != tmid(w["team"]):
            # re-organisation between two runs: the worker leaves his team and is added to another one
            for tm in h.teams:
                if any(x is o for x in tm.worker_list):
                    tm.worker_list = [x for x in tm.worker_list if x is not o]
            h.teams[w["team"]].add_worker(o)
        o.cost_per_time = w.get("cost", 0.0)
        o.solo_working = bool(w.get("solo", False))
        put_dict(o, "workamount_skill_mean_map", {tname(int(k)): v for k, v in w.get("skills", {}).items()})
        put_dict(o, "facility_skill_map", {fname(int(k)): v for k, v in w.get("fsk", {}).items()})
        put_dict(o, "quality_skill_mean_map", {tname(int(k)): v for k, v in w.get("q", {}).items()})
        put_list(o, "absence_time_list", w.get("abs", []))
        o.main_workplace_id = wpid(w["mw"]) if w.get("mw") is not None else None
    for i, wp in enumerate(spec["wps"]):
        h.wps[i].max_space_size = wp.get("cap", 1.0)
    for i, f in enumerate(spec["facs"]):
        o = h.facs[i]
        if o.workplace_id != wpid(f["wp"]):
            for wp in h.wps:
                if any(x is o for x in wp.facility_list):
                    wp.facility_list = [x for x in wp.facility_list if x is not o]
            h.wps[f["wp"]].add_facility(o)
        o.cost_per_time = f.get("cost", 0.0)
        o.solo_working = bool(f.get("solo", False))
        put_dict(o, "workamount_skill_mean_map", {tname(int(k)): v for k, v in f.get("skills", {}).items()})
        put_list(o, "absence_time_list", f.get("abs", []))
    # members in the order a fresh build lists them (the order decides ties in the allocation)
    for k, tm in enumerate(h.teams):
        tm.worker_list = [h.workers[i] for i, w in enumerate(spec["workers"]) if w["team"] == k]
    for k, wp in enumerate(h.wps):
        wp.facility_list = [h.facs[i] for i, f in enumerate(spec["facs"]) if f["wp"] == k]
    _wire(h, spec)
    order = spec.get("order") or list(range(len(h.tasks)))
    h.project.workflow.task_list = [h.tasks[i] for i in order]


def warm_build(spec, **build_kw):
    """build(spec), or - when the spec asks for a warm start - a project that has already lived:

    spec["warm"] = {"mode": "morph", "k": n}: a model of the same shape with other attribute values is built and
        simulated, then its objects are edited in place into `spec` (attribute assignment, as the repository's
        fixtures do), so that anything the library cached in those objects is stale;
    spec["warm"] = {"mode": "graft", "k": n}: the other model is simulated, then product, workflow and organization
        of that *project object* are replaced by freshly built ones (same IDs, new objects).
    The observed simulate() that follows re-initializes everything, so the result must equal the cold one.
    """
    warm = spec.get("warm")
    if not warm:
        h = build(spec, **build_kw)
        h.sim_extra, h.t0 = {}, 0
        return h
    if warm.get("mode") == "nolog":
        # a freshly built, never simulated model whose first run does not initialize the logs (they are empty anyway)
        h = build(spec, **build_kw)
        h.sim_extra, h.t0 = {"initialize_state_info": True, "initialize_log_info": False}, 0
        return h
    if warm.get("mode") == "cutrerun":
        # the model's own run was cut short by max_time (resources held, components placed); the observed run is a
        # plain simulate() with default flags, as the "increase max_time" warning suggests
        h = build(spec, **build_kw)
        simulate(h.project, dict(spec.get("opts", default_opts()), max_time=2 * int(warm.get("k", 1)) - 1))
        h.sim_extra, h.t0 = {}, 0
        return h
    if warm.get("mode") in ("carry", "append"):
        # the model itself has been simulated before and that run was cut short by max_time (resources held,
        # components placed); the observed run then uses one of the two unequal initialize-flag combinations:
        #   carry : initialize_state_info=False, initialize_log_info=True  (state carried over, logs and time restart)
        #   append: initialize_state_info=True,  initialize_log_info=False (state reset, logs and time continue)
        # A caller that ignores h.sim_extra simply re-runs with the default flags.
        h = build(spec, **build_kw)
        simulate(h.project, dict(spec.get("opts", default_opts()), max_time=2 * int(warm.get("k", 1)) - 1))
        if warm["mode"] == "carry":
            h.sim_extra, h.t0 = {"initialize_state_info": False, "initialize_log_info": True}, 0
        else:
            h.sim_extra, h.t0 = {"initialize_state_info": True, "initialize_log_info": False}, int(h.project.time)
        return h
    ps = perturb(spec, int(warm.get("k", 1)))
    h0 = build(ps, **build_kw)
    simulate(h0.project, dict(ps.get("opts", default_opts()), max_time=12))
    if warm.get("mode") == "graft":
        h1 = build(spec, **build_kw)
        p = h0.project
        p.product = h1.project.product
        p.workflow = h1.project.workflow
        p.organization = h1.project.organization
        h1.project = p
        h1.sim_extra, h1.t0 = {}, 0
        return h1
    morph(h0, spec)
    h0.sim_extra, h0.t0 = {}, 0
    return h0


def sim_kwargs(opts):
    return dict(
        task_priority_rule=TaskPriorityRuleMode(opts.get("rule", 0)),
        absence_time_list=list(opts.get("abs", [])),
        perform_auto_task_while_absence_time=bool(opts.get("auto_abs", False)),
        max_time=opts.get("max_time", 200),
    )


def simulate(project, opts, **extra):
    """project.simulate with the spec's options; library warnings (Time Over) silenced."""
    kw = sim_kwargs(opts)
    kw.update(extra)
    with warnings.catch_warnings():
        warnings.simplefilter("ignore")
        project.simulate(**kw)


def backward_simulate(project, opts, **extra):
    kw = sim_kwargs(opts)
    kw.update(extra)
    with warnings.catch_warnings():
        warnings.simplefilter("ignore")
        project.backward_simulate(**kw)


# --------------------------------------------------------------------------------------------
# dump: every per-step log of every object
# --------------------------------------------------------------------------------------------
def _ints(seq):
    return [int(x) for x in seq]


def dump(project, live=False):
    d = {
        "time": project.time,
        "status": int(project.status),
        "cost": list(project.cost_list),
        "org_cost": list(project.organization.cost_list),
        "tasks": {},
        "comps": {},
        "workers": {},
        "facs": {},
        "teams": {},
        "wps": {},
    }
    for t in project.workflow.task_list:
        e = {
            "state": _ints(t.state_record_list),
            "rem": [float(x) for x in t.remaining_work_amount_record_list],
            "aw": [None if x is None else list(x) for x in t.allocated_worker_id_record],
            "af": [None if x is None else list(x) for x in t.allocated_facility_id_record],
        }
        if live:
            e["live"] = [
                int(t.state),
                float(t.remaining_work_amount),
                [w.ID for w in t.allocated_worker_list],
                [f.ID for f in t.allocated_facility_list],
            ]
        d["tasks"][t.ID] = e
    for c in project.product.component_list:
        e = {
            "state": _ints(c.state_record_list),
            "placed": list(c.placed_workplace_id_record),
        }
        if live:
            e["live"] = [
                int(c.state),
                c.placed_workplace.ID if c.placed_workplace is not None else None,
            ]
        d["comps"][c.ID] = e
    for tm in project.organization.team_list:
        d["teams"][tm.ID] = {"cost": list(tm.cost_list)}
        for w in tm.worker_list:
            e = {
                "state": _ints(w.state_record_list),
                "cost": list(w.cost_list),
                "assigned": [
                    None if x is None else list(x) for x in w.assigned_task_id_record
                ],
            }
            if live:
                e["live"] = [int(w.state), [t.ID for t in w.assigned_task_list]]
            d["workers"][w.ID] = e
    for wp in project.organization.workplace_list:
        e = {
            "cost": list(wp.cost_list),
            "placed": [None if x is None else list(x) for x in wp.placed_component_id_record],
        }
        if live:
            e["live"] = [c.ID for c in wp.placed_component_list]
        d["wps"][wp.ID] = e
        for f in wp.facility_list:
            e = {
                "state": _ints(f.state_record_list),
                "cost": list(f.cost_list),
                "assigned": [
                    None if x is None else list(x) for x in f.assigned_task_id_record
                ],
            }
            if live:
                e["live"] = [int(f.state), [t.ID for t in f.assigned_task_list]]
            d["facs"][f.ID] = e
    return d


def all_log_lengths(project):
    """(label, length) of every per-step log in the model."""
    out = [("project.cost_list", len(project.cost_list))]
    out.append(("organization.cost_list", len(project.organization.cost_list)))
    for t in project.workflow.task_list:
        out.append((t.ID + ".state", len(t.state_record_list)))
        out.append((t.ID + ".rem", len(t.remaining_work_amount_record_list)))
        out.append((t.ID + ".aw", len(t.allocated_worker_id_record)))
        out.append((t.ID + ".af", len(t.allocated_facility_id_record)))
    for c in project.product.component_list:
        out.append((c.ID + ".state", len(c.state_record_list)))
        out.append((c.ID + ".placed", len(c.placed_workplace_id_record)))
    for tm in project.organization.team_list:
        out.append((tm.ID + ".cost", len(tm.cost_list)))
        for w in tm.worker_list:
            out.append((w.ID + ".state", len(w.state_record_list)))
            out.append((w.ID + ".cost", len(w.cost_list)))
            out.append((w.ID + ".assigned", len(w.assigned_task_id_record)))
    for wp in project.organization.workplace_list:
        out.append((wp.ID + ".cost", len(wp.cost_list)))
        out.append((wp.ID + ".placed", len(wp.placed_component_id_record)))
        for f in wp.facility_list:
            out.append((f.ID + ".state", len(f.state_record_list)))
            out.append((f.ID + ".cost", len(f.cost_list)))
            out.append((f.ID + ".assigned", len(f.assigned_task_id_record)))
    return out


def diff_dumps(a, b, path="", tol=0.0, out=None, limit=5):
    """First few differences between two dumps (exact unless tol > 0)."""
    if out is None:
        out = []
    if len(out) >= limit:
        return out
    if isinstance(a, dict) and isinstance(b, dict):
        for k in sorted(set(a) | set(b), key=str):
            if k not in a or k not in b:
                out.append("%s/%s: only on one side" % (path, k))
            else:
                diff_dumps(a[k], b[k], path + "/" + str(k), tol, out, limit)
            if len(out) >= limit:
                break
    elif isinstance(a, (list, tuple)) and isinstance(b, (list, tuple)):
        if len(a) != len(b):
            out.append("%s: length %d != %d" % (path, len(a), len(b)))
        else:
            for i, (x, y) in enumerate(zip(a, b)):
                diff_dumps(x, y, "%s[%d]" % (path, i), tol, out, limit)
                if len(out) >= limit:
                    break
    elif isinstance(a, float) or isinstance(b, float):
        if a is None or b is None or isinstance(a, (str, list)) or isinstance(b, (str, list)):
            if a != b:
                out.append("%s: %r != %r" % (path, a, b))
        elif abs(a - b) > tol * max(1.0, abs(a), abs(b)):
            out.append("%s: %r != %r" % (path, a, b))
    elif a != b:
        out.append("%s: %r != %r" % (path, a, b))
    return out


# --------------------------------------------------------------------------------------------
# global-state hygiene: the mutable default arguments of simulate / backward_simulate
# --------------------------------------------------------------------------------------------
_DEFAULT_LISTS = []
for _fn in (BaseProject.simulate, BaseProject.backward_simulate):
    for _d in _fn.__defaults__ or ():
        if isinstance(_d, list):
            _DEFAULT_LISTS.append(_d)


def defaults_polluted():
    return any(len(d) > 0 for d in _DEFAULT_LISTS)


def reset_defaults():
    """Restore the library's mutable default arguments; returns True if they were polluted."""
    polluted = defaults_polluted()
    for d in _DEFAULT_LISTS:
        del d[:]
    return polluted


# --------------------------------------------------------------------------------------------
# scratch files (one directory per process, removed at exit)
# --------------------------------------------------------------------------------------------
_TMP = {}


def tmp_path(name):
    import atexit
    import shutil
    import tempfile

    pid = os.getpid()
    if pid not in _TMP:
        d = tempfile.mkdtemp(prefix="pdesy_verif_")
        _TMP.clear()
        _TMP[pid] = d
        atexit.register(shutil.rmtree, d, True)
    return os.path.join(_TMP[pid], name)


def cleanup_tmp():
    """Remove this process's scratch directory (pool workers never run atexit handlers)."""
    import shutil

    d = _TMP.pop(os.getpid(), None)
    if d:
        shutil.rmtree(d, True)


def json_roundtrip(project, name="p.json"):
    """write_simple_json + read_simple_json into a new BaseProject."""
    path = tmp_path(name)
    project.write_simple_json(path)
    p2 = BaseProject()
    p2.read_simple_json(path)
    return p2, path


# --------------------------------------------------------------------------------------------
# which behaviour-relevant settings survive a JSON round trip? (probed on the current tree)
# --------------------------------------------------------------------------------------------
_SAVED = None


# Which behaviour-relevant settings are part of the saved format. Committed, not probed: since the repair D-JSON4 all
# five are written and restored. C16 verifies at run time that this table is still truthful (probe_saved_settings);
# C15/C16/C17 restrict their JSON variants to the settings listed as saved here.
SAVED_SETTINGS = {"wr": True, "fr": True, "wpr": True, "mw": True, "inputs": True}


def saved_settings():
    return dict(SAVED_SETTINGS)


def probe_saved_settings():
    """{'wr','fr','wpr','mw','inputs'} -> bool: does the setting survive a JSON round trip on the current tree?"""
    global _SAVED
    if _SAVED is not None:
        return _SAVED
    spec = {
        "tasks": [
            {"work": 1.0, "prog": 0.0, "auto": False, "nf": True, "comp": 0, "wpr": 1, "wr": 2, "fr": 2,
             "fixw": None, "fixf": None, "due": -1, "rate": 1.0},
        ],
        "deps": [],
        "comps": [{"space": 1.0, "parent": None}],
        "teams": [{"targets": [0]}],
        "workers": [{"team": 0, "cost": 1.0, "solo": False, "skills": {"0": 1.0}, "fsk": {"0": 1.0}, "abs": [], "mw": 1}],
        "wps": [{"cap": 1.0, "targets": [0], "inputs": []}, {"cap": 1.0, "targets": [0], "inputs": [0]}],
        "facs": [{"wp": 0, "cost": 0.0, "solo": False, "skills": {"0": 1.0}, "abs": []}],
    }
    h = build(spec)
    out = {"wr": False, "fr": False, "wpr": False, "mw": False, "inputs": False}
    try:
        p2, _ = json_roundtrip(h.project, "probe.json")
        t = p2.workflow.task_list[0]
        out["wr"] = int(t.worker_priority_rule) == 2
        out["fr"] = int(t.facility_priority_rule) == 2
        out["wpr"] = int(t.workplace_priority_rule) == 1
        w = p2.organization.team_list[0].worker_list[0]
        out["mw"] = w.main_workplace_id == wpid(1)
        wp1 = p2.organization.workplace_list[1]
        wp0 = p2.organization.workplace_list[0]
        out["inputs"] = (
            [x.ID for x in wp1.input_workplace_list] == [wpid(0)]
            and [x.ID for x in wp0.output_workplace_list] == [wpid(1)]
        )
    except Exception:  # noqa: BLE001  (a tree where the round trip itself fails: C16 reports it)
        pass
    _SAVED = out
    return out


def json_domain(spec):
    """Copy of spec restricted to settings that are part of the saved format (others at constructor defaults)."""
    saved = saved_settings()
    s = json.loads(json.dumps(spec))
    for t in s["tasks"]:
        if not saved["wr"]:
            t["wr"] = -1
        if not saved["fr"]:
            t["fr"] = 0
        if not saved["wpr"]:
            t["wpr"] = 0
    if not saved["mw"]:
        for w in s["workers"]:
            w["mw"] = None
    if not saved["inputs"]:
        for wp in s["wps"]:
            wp["inputs"] = []
    return s
