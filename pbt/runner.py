"""Runner: tiers, seeding, sharding, failure bucketing, bounded shrink, known findings, evidence.

usage: python -m pbt.runner <ID> [--tier quick|thorough] [--replay FILE] [--cases N] [--shards K]

exit 0: property held on everything explored (KNOWN-FINDING lines may be printed)
exit 1: at least one line "VIOLATION property=<ID> replay=<path>"
exit 2: harness error (import failure, generator health check, oracle crash) - never a violation
"""
import argparse
import collections
import glob
import hashlib
import importlib
import json
import multiprocessing
import os
import sys
import time
import traceback

VERIF = os.path.dirname(os.path.dirname(os.path.abspath(__file__)))
os.chdir(VERIF)

from .core import HarnessError, Result, Violation  # noqa: E402

KNOWN_FILE = os.path.join(VERIF, "KNOWN_FINDINGS.txt")
MAX_BUCKETS = int(os.environ.get("VERIF_MAX_BUCKETS", "5"))


def _canon(case):
    return json.dumps(case, sort_keys=True, separators=(",", ":"), default=str)


def case_hash(case):
    return hashlib.sha1(_canon(case).encode()).hexdigest()[:16]


# --------------------------------------------------------------------------------------------
# known findings
# --------------------------------------------------------------------------------------------
def load_known(pid):
    known, fixed = [], []
    if not os.path.exists(KNOWN_FILE):
        return known, fixed
    for line in open(KNOWN_FILE):
        line = line.strip()
        if not line or line.startswith("#"):
            continue
        if line.startswith("known:"):
            head, _, text = line[len("known:"):].partition("::")
            kv = dict(x.split("=", 1) for x in head.split() if "=" in x)
            if kv.get("property") != pid:
                continue
            kv["text"] = text.strip()
            known.append(kv)
        elif line.startswith("fixed:"):
            body = line[len("fixed:"):].strip()
            kv = dict(x.split("=", 1) for x in body.split() if "=" in x)
            if kv.get("property") != pid:
                continue
            kv["text"] = body
            fixed.append(kv)
    return known, fixed


# --------------------------------------------------------------------------------------------
# evaluating one case
# --------------------------------------------------------------------------------------------
def _pdesy_frame(tb):
    """innermost traceback frame inside the pDESy package, or None."""
    from . import spec as S

    root = os.path.realpath(S.REPO) + os.sep
    hit = None
    for fs in traceback.extract_tb(tb):
        if os.path.realpath(fs.filename).startswith(root):
            hit = fs
    return hit


class CaseTimeout(BaseException):
    """Raised by the per-case watchdog (a case normally takes milliseconds)."""


CASE_TIMEOUT = float(os.environ.get("VERIF_CASE_TIMEOUT", "90"))


def _alarm(signum, frame):
    raise CaseTimeout()


def evaluate(mod, case):
    """Run mod.check(case) -> Result. pDESy crashes become violations, harness crashes HarnessError.

    A case that does not return within CASE_TIMEOUT seconds (three orders of magnitude above the normal
    cost) is reported as a hang of the code under test: simulate() and friends must always return.
    """
    import signal

    from . import spec as S

    S.reset_defaults()
    sp = case if isinstance(case, dict) else None
    if sp is not None and "tasks" not in sp and isinstance(sp.get("spec"), dict):
        sp = sp["spec"]
    S.set_style(sp)
    use_alarm = hasattr(signal, "setitimer") and CASE_TIMEOUT > 0
    old_handler = None
    if use_alarm:
        try:
            old_handler = signal.signal(signal.SIGALRM, _alarm)
            signal.setitimer(signal.ITIMER_REAL, CASE_TIMEOUT)
        except ValueError:  # not in the main thread
            use_alarm = False
    try:
        res = _evaluate(mod, case, S)
    finally:
        if use_alarm:
            signal.setitimer(signal.ITIMER_REAL, 0)
            signal.signal(signal.SIGALRM, old_handler)
    if S.defaults_polluted():
        res.stats["defaults_polluted"] += 1
        S.reset_defaults()
    return res


def _evaluate(mod, case, S):
    try:
        res = mod.check(case)
        if res is None:
            res = Result()
    except CaseTimeout:
        res = Result()
        res.fail(
            mod.PID + ".hang",
            "the case did not return within %.0f s (normal cost: milliseconds): endless loop in the code under test" % CASE_TIMEOUT,
        )
    except Violation as v:
        res = Result()
        res.violations.append(v)
    except HarnessError:
        raise
    except Exception as e:  # noqa: BLE001
        et, ev, tb = sys.exc_info()
        frames = traceback.extract_tb(tb)
        fr = _pdesy_frame(tb)
        # raised inside pDESy, or inside library code that pDESy called (json, numpy, ...): everything below the
        # innermost harness frame belongs to the code under test
        verif_root = os.path.realpath(os.path.dirname(os.path.dirname(os.path.abspath(__file__)))) + os.sep
        last_harness = max([i for i, f in enumerate(frames) if os.path.realpath(f.filename).startswith(verif_root)] or [-1])
        last_pdesy = max([i for i, f in enumerate(frames) if os.path.realpath(f.filename).startswith(os.path.realpath(S.REPO) + os.sep)] or [-1])
        if fr is not None and last_pdesy > last_harness:
            res = Result()
            res.fail(
                mod.PID + ".crash",
                "%s: %s at %s:%s in %s"
                % (et.__name__, ev, os.path.basename(fr.filename), fr.lineno, fr.name),
                sig="%s@%s" % (et.__name__, fr.name),
            )
        else:
            raise HarnessError(
                "oracle/harness crashed: %s\n%s" % (e, traceback.format_exc())
            )
    return res


# --------------------------------------------------------------------------------------------
# one shard = one Hypothesis search (repeated with found buckets muted)
# --------------------------------------------------------------------------------------------
class _Stop(BaseException):
    """Ends a Hypothesis run from inside the property body (shrink budget used up)."""


def run_shard(args):
    pid, tier, seed, shard, n_cases, shrink_budget = args
    shrink_seconds = 60.0 if tier == "quick" else 300.0
    out = {
        "evals": 0,
        "nt": set(),
        "classes": collections.Counter(),
        "stats": collections.Counter(),
        "excluded": collections.Counter(),
        "samples": [],
        "failures": [],
        "harness_error": None,
        "passes": 0,
    }
    try:
        import hypothesis
        from hypothesis import HealthCheck, Phase, given, settings

        mod = importlib.import_module("pbt.props." + pid.lower())
        strategy = mod.strategy(tier)
        muted = set()
        while len(muted) < MAX_BUCKETS:
            st = {
                "target": None,
                "best": None,
                "best_hash": None,
                "best_v": None,
                "after": 0,
                "pending": {},
            }
            # coverage counters of this pass (a later pass re-generates from the same seed and
            # goes at least as far, so the latest pass replaces the earlier ones)
            cur = {
                "evals": 0,
                "nt": set(),
                "classes": collections.Counter(),
                "stats": collections.Counter(),
                "excluded": collections.Counter(),
                "samples": [],
            }

            def body(case):
                if out["harness_error"]:
                    return
                if st["target"] is not None:
                    st["after"] += 1
                    if st.get("t_fail") is not None and time.time() - st["t_fail"] > shrink_seconds:
                        st["after"] = shrink_budget + 1  # shrinking effort is also bounded in wall time
                    if st["after"] > shrink_budget:
                        raise _Stop()  # the best failing case so far is kept in st["best"]
                try:
                    res = evaluate(mod, case)
                except HarnessError as he:
                    out["harness_error"] = str(he)
                    return
                if st["target"] is None:
                    cur["evals"] += 1
                    key = res.key if res.key is not None else case_hash(case)
                    if res.nontrivial:
                        cur["nt"].add(key)
                        if len(cur["samples"]) < 2:
                            cur["samples"].append(case)
                    cur["classes"].update(res.classes)
                    cur["stats"].update(res.stats)
                    cur["excluded"].update(res.excluded)
                hit = None
                for v in res.violations:
                    b = v.bucket
                    if b in muted:
                        continue
                    if v.clause.endswith(".hang"):
                        # every further hanging case costs a full time-out: record it and end this shard
                        st["after"] = shrink_budget + 1
                        out["hang_seen"] = True
                        if b not in st["pending"] and b != st["target"]:
                            st["pending"][b] = (v, case)
                    if st["target"] is None:
                        st["target"] = b
                        st["t_fail"] = time.time()
                    if b == st["target"]:
                        hit = v
                    elif b not in st["pending"]:
                        st["pending"][b] = (v, case)
                if hit is not None:
                    st["best"], st["best_hash"], st["best_v"] = case, case_hash(case), hit
                    if out.get("hang_seen"):
                        raise _Stop()
                    raise AssertionError(hit.bucket)
                if out.get("hang_seen"):
                    raise _Stop()

            phases = [Phase.generate, Phase.shrink]
            test = hypothesis.seed(seed * 1000 + shard)(
                settings(
                    max_examples=n_cases,
                    database=None,
                    deadline=None,
                    derandomize=False,
                    report_multiple_bugs=False,
                    phases=phases,
                    suppress_health_check=[HealthCheck.too_slow, HealthCheck.data_too_large],
                    print_blob=False,
                )(given(strategy)(body))
            )
            try:
                test()
            except hypothesis.errors.FailedHealthCheck as e:
                out["harness_error"] = "generator health check: %s" % e
            except hypothesis.errors.Unsatisfiable as e:
                out["harness_error"] = "generator unsatisfiable: %s" % e
            except BaseException:  # noqa: BLE001  (AssertionError, Flaky, ...)
                if st["target"] is None and not out["harness_error"]:
                    out["harness_error"] = "unexpected error outside property body:\n" + (
                        traceback.format_exc()
                    )
            out["passes"] += 1
            out.update(cur)
            if out["harness_error"]:
                break
            if st["target"] is None:
                break
            v = st["best_v"]
            out["failures"].append(
                {"bucket": st["target"], "clause": v.clause, "detail": v.detail, "case": st["best"]}
            )
            muted.add(st["target"])
            if out.get("hang_seen"):
                for b, (pv, pcase) in st["pending"].items():
                    out.setdefault("pending", {})[b] = {"bucket": b, "clause": pv.clause, "detail": pv.detail, "case": pcase}
                break
            for b, (pv, pcase) in st["pending"].items():
                out.setdefault("pending", {})[b] = {
                    "bucket": b,
                    "clause": pv.clause,
                    "detail": pv.detail,
                    "case": pcase,
                }
        for b, f in out.get("pending", {}).items():
            if b not in muted:
                out["failures"].append(f)
        out.pop("pending", None)
    except Exception:  # noqa: BLE001
        out["harness_error"] = traceback.format_exc()
    finally:
        try:
            from . import spec as _spec

            _spec.cleanup_tmp()
        except Exception:  # noqa: BLE001
            pass
    return out


# --------------------------------------------------------------------------------------------
# main
# --------------------------------------------------------------------------------------------
def _write_replay(pid, failure, seed):
    d = os.path.join(VERIF, "out", "replays", pid)
    os.makedirs(d, exist_ok=True)
    name = "found-seed%s-%s.json" % (
        seed,
        hashlib.sha1(failure["bucket"].encode()).hexdigest()[:8],
    )
    path = os.path.join(d, name)
    with open(path, "w") as f:
        json.dump(
            {
                "property": pid,
                "expect": "pass",
                "bucket": failure["bucket"],
                "clause": failure["clause"],
                "detail": failure["detail"],
                "case": failure["case"],
            },
            f,
            indent=1,
            sort_keys=True,
            default=str,
        )
    return os.path.relpath(path, VERIF)


def replay_file(mod, path):
    data = json.load(open(path))
    res = evaluate(mod, data["case"])
    return data, res


def main(argv=None):
    ap = argparse.ArgumentParser()
    ap.add_argument("pid")
    ap.add_argument("--tier", default=os.environ.get("VERIF_TIER") or "quick")
    ap.add_argument("--replay")
    ap.add_argument("--cases", type=int)
    ap.add_argument("--shards", type=int)
    ap.add_argument("--no-evidence", action="store_true")
    a = ap.parse_args(argv)
    pid = a.pid.upper()
    tier = a.tier if a.tier in ("quick", "thorough") else "quick"
    try:
        seed = int(os.environ.get("VERIF_SEED", "1") or "1")
    except ValueError:
        seed = 1
    t0 = time.time()
    try:
        mod = importlib.import_module("pbt.props." + pid.lower())
    except Exception:  # noqa: BLE001
        print("HARNESS-ERROR: cannot import property module for %s" % pid)
        traceback.print_exc()
        return 2

    # ---- single replay
    if a.replay:
        try:
            data, res = replay_file(mod, a.replay)
        except HarnessError as e:
            print("HARNESS-ERROR: %s" % e)
            return 2
        if res.violations:
            for v in res.violations[:5]:
                print("  violated %s: %s" % (v.bucket, v.detail))
            if len(res.violations) > 5:
                print("  ... %d more" % (len(res.violations) - 5))
            print("VIOLATION property=%s replay=%s" % (pid, a.replay))
            return 1
        print("replay %s: property held" % a.replay)
        return 0

    violations = []  # (bucket, path, detail)
    known_printed = []
    harness_errors = []

    # ---- replay tier: committed regression inputs and known-finding witnesses
    known, fixed = load_known(pid)
    known_witness = {os.path.normpath(k["witness"]): k for k in known if "witness" in k}
    replays = sorted(glob.glob(os.path.join(VERIF, "replays", pid, "*.json")))
    n_replays = 0
    for path in replays:
        rel = os.path.relpath(path, VERIF)
        try:
            data, res = replay_file(mod, path)
        except HarnessError as e:
            harness_errors.append("replay %s: %s" % (rel, e))
            continue
        n_replays += 1
        k = known_witness.get(os.path.normpath(rel))
        if k is not None or data.get("expect") == "violate":
            if res.violations:
                text = k["text"] if k else data.get("note", res.violations[0].detail)
                print("KNOWN-FINDING: property=%s %s" % (pid, text))
                known_printed.append(text)
            else:
                print("note: known-finding witness %s no longer violates (stale entry)" % rel)
        else:
            for v in res.violations:
                violations.append((v.bucket, rel, v.detail))

    # ---- generation tier
    budget = mod.budget(tier)
    n_cases = a.cases if a.cases is not None else budget["cases"]
    shards = a.shards if a.shards is not None else budget.get("shards", 4 if tier == "quick" else 16)
    shards = max(1, min(shards, n_cases)) if n_cases > 0 else 0
    shrink_budget = budget.get("shrink", 300 if tier == "quick" else 3000)
    merged = {
        "evals": 0,
        "nt": set(),
        "classes": collections.Counter(),
        "stats": collections.Counter(),
        "excluded": collections.Counter(),
        "samples": [],
        "failures": {},
    }
    if shards:
        per = [n_cases // shards + (1 if i < n_cases % shards else 0) for i in range(shards)]
        jobs = [(pid, tier, seed, i, per[i], shrink_budget) for i in range(shards)]
        if shards == 1:
            results = [run_shard(jobs[0])]
        else:
            ctx = multiprocessing.get_context("fork")
            with ctx.Pool(shards) as pool:
                results = pool.map(run_shard, jobs)
        for r in results:
            if r["harness_error"]:
                harness_errors.append(r["harness_error"])
            merged["evals"] += r["evals"]
            merged["nt"] |= r["nt"]
            merged["classes"].update(r["classes"])
            merged["stats"].update(r["stats"])
            merged["excluded"].update(r["excluded"])
            merged["samples"].extend(r["samples"])
            for f in r["failures"]:
                merged["failures"].setdefault(f["bucket"], f)

    # ---- extra deterministic parts (exhaustive sub-domains, fuzz campaigns ...)
    extra_cov = {}
    if hasattr(mod, "extra"):
        try:
            ex = mod.extra(tier, seed)
        except HarnessError as e:
            harness_errors.append("extra: %s" % e)
            ex = None
        except Exception:  # noqa: BLE001
            harness_errors.append("extra crashed:\n" + traceback.format_exc())
            ex = None
        if ex:
            merged["evals"] += ex.get("evals", 0)
            merged["nt"] |= set(ex.get("nt", ()))
            merged["classes"].update(ex.get("classes", {}))
            merged["stats"].update(ex.get("stats", {}))
            merged["samples"].extend(ex.get("samples", [])[:2])
            for f in ex.get("failures", []):
                merged["failures"].setdefault(f["bucket"], f)
            extra_cov = ex.get("coverage", {})

    for b, f in sorted(merged["failures"].items()):
        path = _write_replay(pid, f, seed)
        violations.append((b, path, f["detail"]))

    wall = time.time() - t0
    # ---- evidence
    if not a.no_evidence:
        samples = merged["samples"][:4]
        cov = {
            "evaluations": merged["evals"] + n_replays,
            "distinct_nontrivial": len(merged["nt"]),
            "rule": mod.RULE,
            "samples": samples if samples else [{"note": "no non-trivial sample collected"}],
            "classes": dict(sorted(merged["classes"].items())),
            "counters": dict(sorted(merged["stats"].items())),
            "excluded_by_construction": dict(sorted(merged["excluded"].items())),
            "replays_run": n_replays,
            "known_findings_printed": known_printed,
            "fixed_entries": [f["text"] for f in fixed],
            "shards": shards,
            "cases_requested": n_cases,
            "violation_buckets": [v[0] for v in violations],
            "harness_errors": len(harness_errors),
        }
        cov.update(extra_cov)
        ev = {
            "property_id": pid,
            "tier": tier,
            "seed": seed,
            "level": getattr(mod, "LEVEL", "exploration"),
            "coverage": cov,
            "assumptions": list(getattr(mod, "ASSUMPTIONS", [])),
            "wall_s": round(wall, 2),
            "violations": len(violations),
        }
        os.makedirs(os.path.join(VERIF, "evidence"), exist_ok=True)
        with open(os.path.join(VERIF, "evidence", pid + ".json"), "w") as f:
            json.dump(ev, f, indent=1, sort_keys=True, default=str)
            f.write("\n")

    print(
        "%s tier=%s seed=%s evaluations=%d distinct_nontrivial=%d replays=%d wall=%.1fs"
        % (pid, tier, seed, merged["evals"], len(merged["nt"]), n_replays, wall)
    )
    if harness_errors:
        for h in harness_errors[:3]:
            print("HARNESS-ERROR: %s" % h)
        return 2
    if violations:
        for b, path, detail in violations:
            print("  violated %s: %s" % (b, str(detail)[:300]))
            print("VIOLATION property=%s replay=%s" % (pid, path))
        return 1
    return 0


if __name__ == "__main__":
    sys.exit(main())
