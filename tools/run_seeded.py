#!/usr/bin/env python3
"""Apply every /verif/seeded/<id>/patch.diff to /repo itself, run the quick check of the property it breaks
(and any extra checks listed in meta.json 'caught_by'), undo the patch straight afterwards.

usage: tools/run_seeded.py [seed-id ...] [--all-caught]
Exit 0 if every seeded change is caught by at least one check, 1 otherwise.
"""
import argparse
import json
import os
import subprocess
import sys

VERIF = os.path.dirname(os.path.dirname(os.path.abspath(__file__)))


def main():
    ap = argparse.ArgumentParser()
    ap.add_argument("ids", nargs="*")
    ap.add_argument("--all-caught", action="store_true", help="also re-run every check listed in caught_by")
    a = ap.parse_args()
    root = os.path.join(VERIF, "seeded")
    ids = a.ids or sorted(os.listdir(root))
    st = subprocess.run(["git", "-C", "/repo", "status", "--porcelain"], capture_output=True, text=True).stdout.strip()
    if st:
        print("refusing: /repo has uncommitted changes:\n" + st)
        return 2
    missed = []
    for sid in ids:
        d = os.path.join(root, sid)
        meta = json.load(open(os.path.join(d, "meta.json")))
        checks = [meta["breaks_property"]]
        if a.all_caught:
            checks += [c for c in meta.get("caught_by", []) if c not in checks]
        r = subprocess.run(["git", "-C", "/repo", "apply", os.path.join(d, "patch.diff")], capture_output=True, text=True)
        if r.returncode != 0:
            print("%-45s patch does not apply: %s" % (sid, r.stderr.strip()[:200]))
            missed.append(sid)
            continue
        caught = []
        try:
            for pid in checks:
                c = subprocess.run(
                    [os.path.join(VERIF, "check"), pid, "--tier", "quick", "--no-evidence"],
                    capture_output=True,
                    text=True,
                    env=dict(os.environ, VERIF_MAX_BUCKETS="1"),
                )
                if c.returncode == 1 and "VIOLATION property=%s" % pid in c.stdout:
                    caught.append(pid)
                elif c.returncode == 2:
                    print("   harness error in %s: %s" % (pid, c.stdout[-300:]))
        finally:
            subprocess.run(["git", "-C", "/repo", "checkout", "--", "."], check=True)
        meta["applied_to_repo_caught_by"] = caught
        json.dump(meta, open(os.path.join(d, "meta.json"), "w"), indent=1, sort_keys=True)
        print("%-45s breaks %s  caught by %s" % (sid, meta["breaks_property"], caught or "NONE"))
        sys.stdout.flush()
        if not caught:
            missed.append(sid)
    print("missed:", missed or "none")
    return 1 if missed else 0


if __name__ == "__main__":
    sys.exit(main())
