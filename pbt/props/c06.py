"""C06 - no avoidable waiting: work starts, proceeds and ends as early as the rules allow."""
from hypothesis import strategies as st

from .. import gen
from .. import simcheck
from ..core import Result

PID = "C06"
LEVEL = "exploration"
RULE = (
    "One spec in three has lived before (warm start): another model edited in place into this one or swapped into the old project object, or the model's own run cut short by max_time and then continued with one of the unequal initialize-flag combinations (state carried over and logs restarted, or state reset and logs appended), or a first run that does not initialize the logs. Teams may list a task without the task listing the team (one-sided links). "
    'One cold-started spec in six is simulated with unit_time 2 or 3 (absence lists in time units, steps and logs indexed by step). '
    'A component whose tasks are all FINISHED at the update of a step does not count as occupying room. '
    'Hypothesis-generated models (profiles W and F, all dependency kinds, solo flags, fixed lists, per-resource absences, all task rules). Oracle at every working step: start dependencies satisfied in the updated snapshot => not NONE; automatic task without component not READY after allocation; no FREE worker eligible (C04 predicate) for a READY/WORKING non-facility task that can still accept it, and no FREE eligible worker+facility pair of the placed workplace for facility tasks of single-task components of flat products - for a component that stayed unplaced, of every workplace the task lists whose free room (counting everything that was there at the start or at the end of the pass) holds the component; sizes and capacities are dyadic or decimal (exact fits such as 0.3 = 3 x 0.1); zero remaining work and finish dependencies at the end of step k-1 => FINISHED at step k. Non-trivial = a READY task waited after allocation for lack of an eligible worker, or a worker joined an already WORKING task; distinct by spec hash.'
)
ASSUMPTIONS = [
    "skill standard deviations are 0 (deterministic skills); unit_time=1; task_performed_mode='multi-workers'",
    "generated models respect the implicit preconditions of DESIGN.md section 4 (unique IDs/names, acyclic graph, forest products)",
]
TECHNIQUE = 'property-based testing (Hypothesis): generated models, no-idle / no-delay invariants on live step snapshots'
LEVEL_TEXT = 'Generated-input search with invariants evaluated on the end-of-allocation state of every working step (sound because allocation lists only grow during the pass); not a proof.'
LEVEL_NOTE = 'Trusts the step observer; eligibility predicate shared with C04; pair clause only for flat products and single-task components, as the property states.'

CFG = gen.Cfg(unit_time=6, float_mode=6, warm_modes=["morph", "graft", "carry", "append", "nolog", "cutrerun"], warm=3, onesided=3, facilities=True, max_workers=5, max_time=[40, 80], kinds=[0, 0, 1, 2, 3], inputs=False, abs_p=2, abs_size=6,
              abs_max=12, max_deps_factor=3)


CFG_PAIRS = CFG.copy(max_wps=2, max_facs_per_wp=3, min_tasks=3, max_tasks=6, max_workers=4)


@st.composite
def _fit_spec(draw):
    """Exact fit: a few independent facility tasks, one component each, sizes u or 2u and a capacity of 3u or 4u
    written as decimal literals (u = 0.1 or 1.1), enough (mostly solo-working) workers and facilities: whether the last component gets in
    is decided by a comparison that is a rounding error away from equality."""
    u = draw(st.sampled_from([0.1, 1.1]))
    lit = {0.1: [0.1, 0.2, 0.3, 0.4], 1.1: [1.1, 2.2, 3.3, 4.4]}[u]
    n = draw(st.integers(3, 5))
    tasks, comps = [], []
    for i in range(n):
        tasks.append({"work": draw(st.sampled_from([1.0, 2.0, 3.0])), "prog": 0.0, "auto": False, "nf": True, "comp": i, "wpr": draw(st.sampled_from([0, 1])),
                      "wr": -1, "fr": 0, "fixw": None, "fixf": None, "due": -1, "rate": 1.0})
        comps.append({"space": draw(st.sampled_from(lit[:2])), "parent": None})
    deps = []
    if draw(st.booleans()):
        a = draw(st.integers(0, n - 2))
        deps.append([a, draw(st.integers(a + 1, n - 1)), 0])
    n_wps = draw(st.integers(1, 2))
    wps = [{"cap": draw(st.sampled_from(lit[1:])), "targets": list(range(n)), "inputs": []} for _ in range(n_wps)]
    facs = []
    for k in range(n_wps):
        for _ in range(draw(st.integers(2, 4))):
            facs.append({"wp": k, "cost": 1.0, "solo": False, "skills": {str(i): 1.0 for i in range(n)}, "abs": []})
    solo = draw(st.sampled_from([True, True, True, False]))  # solo workers: one pair per task, the others stay free
    workers = [
        {"team": 0, "cost": 1.0, "solo": solo, "skills": {str(i): 1.0 for i in range(n)}, "fsk": {str(j): 1.0 for j in range(len(facs))}, "abs": [], "mw": None}
        for _ in range(draw(st.integers(2, 5)))
    ]
    return {
        "tasks": tasks, "deps": deps, "order": list(draw(st.permutations(list(range(n))))), "comps": comps,
        "teams": [{"targets": list(range(n))}], "workers": workers, "wps": wps, "facs": facs,
        "opts": {"rule": draw(st.sampled_from([0, 2, 4])), "abs": [], "auto_abs": False, "max_time": 60},
        # half of the time the model's own run has been cut short before (components still placed) and is run again
        **({"warm": {"mode": "cutrerun", "k": draw(st.integers(1, 2))}} if draw(st.booleans()) else {}),
    }


@st.composite
def _reorganised(draw, cfg):
    """The model is reached by a re-organisation of one that was simulated before: workers (and facilities) have
    left their team (workplace) and been added to another one (add_worker / add_facility), skills and lists edited."""
    spec = draw(gen.model_spec(cfg))
    spec["warm"] = {"mode": "morph", "k": 2}
    spec.pop("unit_time", None)
    return spec


def strategy(tier):
    from hypothesis import strategies as st

    cfg = CFG if tier == "quick" else CFG.copy(max_tasks=12, max_workers=8)
    pairs = CFG_PAIRS if tier == "quick" else CFG_PAIRS.copy(max_tasks=9, max_workers=6)
    return st.one_of(gen.model_spec(cfg), gen.model_spec(cfg), gen.pairs_spec(pairs), _fit_spec(), _reorganised(cfg.copy(max_teams=3, max_workers=6)))


def budget(tier):
    if tier == "quick":
        return {"cases": 3000, "shards": 6}
    return {"cases": 150000, "shards": 16}


def check(spec):
    res = Result()
    sim = simcheck.Sim(spec)
    simcheck.check_c06(sim, res)
    return res
