"""C11 - priority rules order candidates as documented and allocation never inverts them."""
from hypothesis import strategies as st

from .. import gen
from .. import simcheck
from .. import spec as S
from ..core import Result
from ..observe import T_AW, T_EST, T_LST, T_REM, T_STATE

from pDESy.model.base_priority_rule import (  # noqa: E402
    ResourcePriorityRuleMode,
    TaskPriorityRuleMode,
    WorkplacePriorityRuleMode,
    sort_facility_list,
    sort_task_list,
    sort_worker_list,
    sort_workplace_list,
)

PID = "C11"
LEVEL = "exploration"
RULE = (
    "Part 1 (pure functions): Hypothesis-generated lists of 0-8 real pDESy tasks / workers / facilities / workplaces "
    "with key attributes from small pools (many ties) or floats, missing skills, None main workplaces and workplace "
    "ID strings built at run time (equal but not the same object); EVERY rule of the enum is applied to every list "
    "(exhaustive rule x kind table per case). Oracle: result is a permutation of the input by object identity, "
    "adjacent elements are ordered by the documented primary key of the rule, no rule raises. "
    "Part 2 (in simulation, step observer): for every worker newly allocated at a step to task t_low there is no "
    "READY/WORKING non-automatic non-facility task t_high with a strictly better key under the run's task rule "
    "(key read from the live 'updated' snapshot) for which the worker is eligible and which could still accept it at "
    "the end of allocation; for a higher-priority facility task (single task of its component, flat product) the "
    "The simulation part also observes the inner run of backward_simulate() under the rule given to it, and a dense profile in which everybody can do everything. One spec in three has lived before (warm start): another model edited in place into this one or swapped into the old project object, or the model's own run cut short by max_time and then continued with one of the unequal initialize-flag combinations (state carried over and logs restarted, or state reset and logs appended), or a first run that does not initialize the logs. "
    "A 'join' profile has long tasks that everybody can work on together and workers who come and go, so that freed workers meet tasks that are already WORKING. "
    "same with a FREE facility of the placed workplace that the worker can operate (pair form). Non-trivial = a list with a tie and >= 3 distinct keys (part 1) / a step where a worker "
    "eligible for >= 2 candidate tasks was allocated (part 2); distinct by case hash."
)
ASSUMPTIONS = [
    "documented keys: TSLACK lst-est asc, EST asc, SPT/LPT default_work_amount asc/desc, FIFO #READY entries desc, "
    "LRPT/SRPT remaining desc/asc, LWRPT/SWRPT workflow critical path desc/asc; workers SSP skill sum asc, VC cost asc, "
    "HSV target skill desc (missing last), MW main workplace == target first; facilities SSP/VC/HSV alike, MW any "
    "permutation; workplaces FSS free space desc, SSP facility skill sum desc",
    "only the primary key is checked (secondary tie-breakers are not documented)",
]
TECHNIQUE = "property-based testing (Hypothesis): sort functions against documented keys on generated object lists; no-inversion invariant in observed simulations"
LEVEL_TEXT = (
    "Generated lists (all rules applied to each) with a permutation + ordered-by-key oracle, and a no-inversion "
    "invariant over every allocation decision of generated contention-rich runs; not a proof."
)
LEVEL_NOTE = "Part 2 trusts the step observer and the eligibility predicate shared with C04/C06."

VALS = [0.0, 0.5, 1.0, 1.0, 2.0, 3.0]


def _num(fm):
    return st.floats(0.0, 10.0, allow_nan=False) if fm else st.sampled_from(VALS)


@st.composite
def _lists(draw):
    fm = draw(st.integers(0, 4)) == 0
    num = _num(fm)
    nt = draw(st.integers(0, 8))
    tasks = []
    for _ in range(nt):
        tasks.append(
            {
                "est": draw(num),
                "slack": draw(num),
                "work": draw(num),
                "rem": draw(num),
                "ready": draw(st.integers(0, 4)),
                "other": draw(st.integers(0, 3)),
                "wf": draw(st.integers(0, 2)),
            }
        )
    cpl = [draw(num) for _ in range(3)]
    skill = st.one_of(st.none(), num)
    nw = draw(st.integers(0, 8))
    workers = []
    for _ in range(nw):
        workers.append(
            {
                "cost": draw(num),
                "skills": [draw(skill) for _ in range(3)],
                "mw": draw(st.sampled_from([None, 0, 0, 1, 2])),
            }
        )
    nf = draw(st.integers(0, 8))
    facs = [{"cost": draw(num), "skills": [draw(skill) for _ in range(3)]} for _ in range(nf)]
    nwp = draw(st.integers(0, 6))
    wps = []
    for _ in range(nwp):
        wps.append(
            {
                "cap": draw(num),
                "placed": draw(st.lists(st.sampled_from([0.5, 1.0, 1.5]), max_size=3)),
                "fskills": draw(st.lists(skill, max_size=3)),
            }
        )
    return {
        "kind": "lists",
        "tasks": tasks,
        "cpl": cpl,
        "workers": workers,
        "facs": facs,
        "wps": wps,
        "target_wp": draw(st.sampled_from([None, 0, 1, 2])),
        "target_task": draw(st.integers(0, 2)),
    }


CFG_SIM = gen.Cfg(unit_time=6, warm_modes=["morph", "graft", "carry", "append", "nolog", "cutrerun"], warm=3, onesided=3, facilities=True, max_workers=4, min_tasks=3, max_time=[30], p_auto=12, tie_rich=4, kinds=[0, 0, 0, 1])


@st.composite
def _sim(draw, cfg):
    spec = draw(gen.model_spec(cfg))
    if not spec.get("warm") and draw(st.integers(0, 3)) == 0:
        spec["backward"] = True  # the rule given to backward_simulate() governs its inner run in the same way
    return {"kind": "sim", "spec": spec}


CFG_PAIRS = CFG_SIM.copy(max_wps=2, max_facs_per_wp=3, min_tasks=3, max_tasks=6, max_workers=4, inputs=False, kinds=[0, 0, 0, 1, 2, 3],
                          work_pool=[0.0, 0.0, 0.5, 1.0, 1.0, 2.0, 3.0, 4.0])


@st.composite
def _sim_pairs(draw, cfg):
    return {"kind": "sim", "spec": gen.single_task_components(draw(gen.model_spec(cfg)))}


@st.composite
def _sim_dense_pairs(draw, cfg):
    spec = draw(gen.dense_pairs_spec(cfg))
    if not spec.get("warm") and draw(st.integers(0, 2)) == 0:
        spec["backward"] = True
    return {"kind": "sim", "spec": spec}


CFG_JOIN = CFG_SIM.copy(facilities=False, min_tasks=2, max_tasks=4, max_workers=3, work_pool=[2.0, 3.0, 4.0, 6.0, 8.0], max_deps_factor=1, abs_p=1, abs_size=4, abs_max=8,
                        abs_long=0, warm=0, unit_time=0, p_auto=0, tie_rich=0, progress=False, solo=False, fixed_ids=False, project_abs=False)


@st.composite
def _sim_join(draw, cfg):
    """Long tasks that everybody can work on together, workers who come and go (own absences): a worker who becomes
    free meets tasks that are already WORKING - whom he joins is a matter of priority, not of position in task_list."""
    spec = draw(gen.model_spec(cfg))
    n = len(spec["tasks"])
    for tm in spec["teams"]:
        tm["targets"] = list(range(n))
        tm.pop("notask", None)
    while len(spec["workers"]) < 2:
        spec["workers"].append({"team": 0, "cost": 1.0, "solo": False, "skills": {}, "fsk": {}, "abs": draw(gen.abs_list(8, 4)), "mw": None})
    for w in spec["workers"]:
        w["skills"] = {str(i): draw(st.sampled_from([0.5, 1.0])) for i in range(n)}
    gen.share_skills_by_name(spec)
    return {"kind": "sim", "spec": spec}


def strategy(tier):
    if tier == "quick":
        return st.one_of(_lists(), _sim(CFG_SIM), _sim_pairs(CFG_PAIRS), _sim_dense_pairs(CFG_PAIRS), _sim_join(CFG_JOIN))
    return st.one_of(_lists(), _sim(CFG_SIM.copy(max_tasks=12, max_workers=6)), _sim_pairs(CFG_PAIRS.copy(max_tasks=9, max_workers=6)),
                     _sim_dense_pairs(CFG_PAIRS.copy(max_tasks=9, max_workers=6)), _sim_join(CFG_JOIN.copy(max_tasks=6, max_workers=4)))


def budget(tier):
    if tier == "quick":
        return {"cases": 10000, "shards": 8}
    return {"cases": 200000, "shards": 16}


def _ordered(res, what, rule, out, key, reverse=False):
    ks = [key(o) for o in out]
    for a, b in zip(ks, ks[1:]):
        if (a < b) if reverse else (a > b):
            res.fail("C11.order", "%s rule %s: keys after sorting %s are not %s" % (what, rule.name, ks, "descending" if reverse else "ascending"), sig=what + "_" + rule.name)
            return


def _perm(res, what, rule, inp, out):
    if sorted(id(o) for o in inp) != sorted(id(o) for o in out):
        res.fail("C11.permutation", "%s rule %s: result is not a permutation of the input (%d -> %d objects)" % (what, rule.name, len(inp), len(out)), sig=what + "_" + rule.name)
        return False
    return True


def _interesting(keys):
    return len(set(keys)) >= 3 and len(set(keys)) < len(keys)


def wp_id(k):
    return "".join(["w", "p", str(k)])  # built at run time: equal strings, distinct objects


def check_lists(case, res):
    tn = ["T0", "T1", "T2"]
    target_name = tn[case["target_task"]]
    nontrivial = False
    # ---- tasks
    wfs = [S.BaseWorkflow() for _ in range(3)]
    for w, c in zip(wfs, case["cpl"]):
        w.critical_path_length = c
    tasks = []
    for i, t in enumerate(case["tasks"]):
        rec = [S.BaseTaskState.NONE] * t["other"] + [S.BaseTaskState.READY] * t["ready"] + [S.BaseTaskState.WORKING] * (t["other"] % 2)
        obj = S.BaseTask("X%d" % i, default_work_amount=t["work"], est=t["est"], lst=t["est"] + t["slack"], remaining_work_amount=t["rem"], state_record_list=rec)
        obj.est = t["est"]
        obj.lst = t["est"] + t["slack"]
        obj.parent_workflow = wfs[t["wf"]]
        tasks.append(obj)
    keys = {
        TaskPriorityRuleMode.TSLACK: (lambda o: o.lst - o.est, False),
        TaskPriorityRuleMode.EST: (lambda o: o.est, False),
        TaskPriorityRuleMode.SPT: (lambda o: o.default_work_amount, False),
        TaskPriorityRuleMode.LPT: (lambda o: o.default_work_amount, True),
        TaskPriorityRuleMode.FIFO: (lambda o: sum(1 for s in o.state_record_list if int(s) == S.READY), True),
        TaskPriorityRuleMode.LRPT: (lambda o: o.remaining_work_amount, True),
        TaskPriorityRuleMode.SRPT: (lambda o: o.remaining_work_amount, False),
        TaskPriorityRuleMode.LWRPT: (lambda o: o.parent_workflow.critical_path_length, True),
        TaskPriorityRuleMode.SWRPT: (lambda o: o.parent_workflow.critical_path_length, False),
    }
    for rule in TaskPriorityRuleMode:
        out = sort_task_list(list(tasks), rule)
        if _perm(res, "task", rule, tasks, out):
            key, rev = keys[rule]
            _ordered(res, "task", rule, out, key, rev)
            nontrivial = nontrivial or _interesting([key(o) for o in tasks])
    # ---- workers
    workers = []
    for i, w in enumerate(case["workers"]):
        workers.append(
            S.BaseWorker(
                "P%d" % i,
                cost_per_time=w["cost"],
                workamount_skill_mean_map={tn[k]: v for k, v in enumerate(w["skills"]) if v is not None},
                main_workplace_id=wp_id(w["mw"]) if w["mw"] is not None else None,
            )
        )
    target = wp_id(case["target_wp"]) if case["target_wp"] is not None else None
    wkeys = {
        ResourcePriorityRuleMode.SSP: (lambda o: sum(o.workamount_skill_mean_map.values()), False),
        ResourcePriorityRuleMode.VC: (lambda o: o.cost_per_time, False),
        ResourcePriorityRuleMode.HSV: (lambda o: o.workamount_skill_mean_map.get(target_name, -float("inf")), True),
        ResourcePriorityRuleMode.MW: (lambda o: o.main_workplace_id != target, False),
    }
    for rule in ResourcePriorityRuleMode:
        kwargs = {"name": target_name}
        if target is not None:
            kwargs["workplace_id"] = target
        out = sort_worker_list(list(workers), rule, **kwargs)
        if _perm(res, "worker", rule, workers, out):
            key, rev = wkeys[rule]
            _ordered(res, "worker", rule, out, key, rev)
            nontrivial = nontrivial or _interesting([key(o) for o in workers])
    res.cls("mw_equal_not_identical", any(w["mw"] is not None and w["mw"] == case["target_wp"] for w in case["workers"]))
    # ---- facilities
    facs = [
        S.BaseFacility("Q%d" % i, cost_per_time=f["cost"], workamount_skill_mean_map={tn[k]: v for k, v in enumerate(f["skills"]) if v is not None})
        for i, f in enumerate(case["facs"])
    ]
    fkeys = {
        ResourcePriorityRuleMode.SSP: (lambda o: sum(o.workamount_skill_mean_map.values()), False),
        ResourcePriorityRuleMode.VC: (lambda o: o.cost_per_time, False),
        ResourcePriorityRuleMode.HSV: (lambda o: o.workamount_skill_mean_map.get(target_name, -float("inf")), True),
        ResourcePriorityRuleMode.MW: None,
    }
    for rule in ResourcePriorityRuleMode:
        out = sort_facility_list(list(facs), rule, name=target_name)
        if _perm(res, "facility", rule, facs, out) and fkeys[rule] is not None:
            key, rev = fkeys[rule]
            _ordered(res, "facility", rule, out, key, rev)
    # ---- workplaces
    wps = []
    for i, w in enumerate(case["wps"]):
        fl = [S.BaseFacility("R%d_%d" % (i, k), workamount_skill_mean_map=({target_name: v} if v is not None else {})) for k, v in enumerate(w["fskills"])]
        wp = S.BaseWorkplace("V%d" % i, facility_list=fl, max_space_size=w["cap"])
        for k, sz in enumerate(w["placed"]):
            wp.set_placed_component(S.BaseComponent("K%d_%d" % (i, k), space_size=sz))
        wps.append(wp)
    pkeys = {
        WorkplacePriorityRuleMode.FSS: (lambda o: o.max_space_size - sum(c.space_size for c in o.placed_component_list), True),
        WorkplacePriorityRuleMode.SSP: (lambda o: sum(f.workamount_skill_mean_map[target_name] for f in o.facility_list if f.workamount_skill_mean_map.get(target_name, 0.0) > 1e-10), True),
    }
    for rule in WorkplacePriorityRuleMode:
        out = sort_workplace_list(list(wps), rule, name=target_name)
        if _perm(res, "workplace", rule, wps, out):
            key, rev = pkeys[rule]
            _ordered(res, "workplace", rule, out, key, rev)
    res.nontrivial = nontrivial


def task_key(rule, sim, ti, upd, k):
    """priority key of task ti at step k (smaller = better), None if the rule gives no strict order."""
    tt = upd["tasks"][sim.tids[ti]]
    t = sim.tasks[ti]
    if rule == 0:
        return tt[T_LST] - tt[T_EST]
    if rule == 1:
        return tt[T_EST]
    if rule == 2:
        return t["work"]
    if rule == 3:
        return -t["work"]
    if rule == 4:
        log = sim.h.tasks[ti].state_record_list[:k]
        # waiting time = READY entries of working steps (entries logged at project-wide absence steps do not count)
        return -sum(1 for i, s in enumerate(log) if int(s) == S.READY and i not in sim.absn)
    if rule == 5:
        return -tt[T_REM]
    if rule == 6:
        return tt[T_REM]
    return 0.0  # LWRPT / SWRPT: one workflow, all keys equal


def check_sim(case, res):
    spec = case["spec"]
    sim = simcheck.Sim(spec, phases=("updated", "allocated"))
    rule = spec["opts"]["rule"]
    res.cls("rule_" + TaskPriorityRuleMode(rule).name)
    res.cls("backward_run", sim.backward)
    flat_product = all(c.get("parent") is None for c in spec["comps"])
    comp_tasks = {}
    for i, t in enumerate(spec["tasks"]):
        if t.get("comp") is not None:
            comp_tasks.setdefault(t["comp"], []).append(i)
    contested = False
    for k, d in enumerate(sim.steps):
        upd, alloc = d.get("updated"), d.get("allocated")
        if upd is None or alloc is None or k in sim.absn:
            continue
        for lo in range(sim.n):
            lo_id = sim.tids[lo]
            new = [w for w in alloc["tasks"][lo_id][T_AW] if w not in upd["tasks"][lo_id][T_AW]]
            if not new:
                continue
            klo = task_key(rule, sim, lo, upd, k)
            for w in new:
                wi = sim.widx[w]
                for hi in range(sim.n):
                    if hi == lo:
                        continue
                    th = sim.tasks[hi]
                    hi_id = sim.tids[hi]
                    if th["auto"] or upd["tasks"][hi_id][T_STATE] not in (S.READY, S.WORKING):
                        continue
                    if not sim.worker_eligible(wi, hi, k):
                        continue
                    khi = task_key(rule, sim, hi, upd, k)
                    if th["nf"]:
                        # pair form: single-task component of a flat product, a FREE facility the worker can operate
                        if not (flat_product and th.get("comp") is not None and len(comp_tasks[th["comp"]]) == 1):
                            continue
                        pairs = simcheck.acceptable_pairs(sim, alloc, hi, k, [w])
                        if pairs:
                            contested = True
                            if khi < klo:
                                res.fail(
                                    "C11.inversion_pair",
                                    "step %d rule %s: worker %s went to %s (key %r) although facility task %s (key %r) has higher priority and could accept the pair %s"
                                    % (k, TaskPriorityRuleMode(rule).name, w, lo_id, klo, hi_id, khi, pairs[0]),
                                    sig=TaskPriorityRuleMode(rule).name,
                                )
                        continue
                    contested = True
                    if not khi < klo:
                        continue
                    aw = alloc["tasks"][hi_id][T_AW]
                    if any(spec["workers"][sim.widx[x]]["solo"] for x in aw):
                        continue
                    if spec["workers"][wi]["solo"] and aw:
                        continue
                    res.fail(
                        "C11.inversion",
                        "step %d rule %s: worker %s went to %s (key %r) although %s (key %r, holding %s) has higher priority, is eligible and could accept it"
                        % (k, TaskPriorityRuleMode(rule).name, w, lo_id, klo, hi_id, khi, list(aw)),
                        sig=TaskPriorityRuleMode(rule).name,
                    )
    res.nontrivial = contested
    res.stats["steps"] += sim.N


def check(case):
    res = Result()
    res.cls(case["kind"])
    if case["kind"] == "lists":
        check_lists(case, res)
    else:
        check_sim(case, res)
    return res
