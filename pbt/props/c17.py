"""C17 - backward simulation leaves the model intact and respects dependencies (fault-injection property)."""
from hypothesis import strategies as st

from .. import gen
from .. import spec as S
from ..core import Result
from ..observe import InjectedFault, Observer

PID = "C17"
LEVEL = "fault_enumeration"
RULE = (
    "Hypothesis-generated models (profiles W/F/N, due times from {-1,0..30}), options, both settings of "
    "considering_due_time_of_tail_tasks and reverse_log_information, and a fault point: none, or an exception "
    "raised by the step observer at a generated (step, phase) of the inner run (steps 0-12, all four phases). "
    "Oracle: the structure snapshot (per task: the (task object, dependency kind) sequence of its predecessor and "
    "successor lists; per workplace: its input/output lists; the workflow's task list; all by object identity and "
    "order) is identical before the call and after it returned or after the injected exception propagated; no "
    "helper task is left anywhere; a following simulate() gives the dump of a fresh build. For successful runs: "
    "in the presented logs (mirrored when reverse_log_information=False) every FS predecessor's last WORKING "
    "entry precedes the successor's first WORKING entry, and all logs have project.time entries. In the thorough "
    'A dependency-rich profile puts FF/SF links next to FS links on one task, with one specialist worker per task. '
    'One case in four backward-simulates the model after a JSON round trip; models contain sub-project tasks. '
    "tier every (step, phase) fault point of the generated run is enumerated. Non-trivial = helper tasks were "
    "created (>= 2 tail tasks with different due times and the option on) or a fault was injected after step 0; "
    "distinct by case hash."
)
ASSUMPTIONS = [
    "the injected exception is raised from the guarded step observer, i.e. between phases of the inner simulate loop",
    "FS ordering clause is claimed for FINISHED_SUCCESS runs only, as the property states",
]
TECHNIQUE = "property-based testing with fault injection (Hypothesis): structure snapshot before/after, exception injected at generated or enumerated step/phase"
LEVEL_TEXT = (
    "Generated models x options x fault points; in the thorough tier all fault points of each generated run are "
    "enumerated. Structure is compared by object identity and order; not a proof."
)
LEVEL_NOTE = "Faults are injected only at the four observer phases, not inside a phase."

CFG = gen.Cfg(onesided=4, servable=3, facilities=True, max_tasks=6, max_time=[40], abs_max=12, chain_components=True, due=True, dup_names=3,
              work_pool=[0.0, 0.5, 1.0, 1.0, 2.0, 3.0], kinds=[0, 0, 0, 0, 1, 2, 3])
# nested products only without workplaces here: backward_simulate reverses the dependencies, which turns the
# assembly form around (parent tasks first) and leads into the nested-placement findings D-PLC2..4 of C13
CFG_N = CFG.copy(nested="free", max_wps=0, multi_parent=2)
PH = ["updated", "allocated", "performed", "recorded"]


@st.composite
def _case(draw, cfg, tier):
    spec = draw(gen.model_spec(cfg))
    for t in spec["tasks"]:
        if t["comp"] is None and not t["nf"] and draw(st.integers(0, 4)) == 0:
            t["auto"] = True
            t["sub"] = {"unit_s": 60}
    fault = None
    if draw(st.booleans()):
        fault = [draw(st.integers(0, 12)), draw(st.sampled_from(PH))]
    return {
        "spec": spec,
        "due": draw(st.booleans()),
        "rev": draw(st.booleans()),
        "fault": fault,
        "all_faults": tier != "quick" and draw(st.integers(0, 3)) == 0,
        "via_json": draw(st.integers(0, 3)) == 0,
    }


# several dependency kinds on one task, everybody can do everything: tasks held WORKING with nothing left to do by a
# finish-to-finish / start-to-finish link while their finish-to-start neighbours wait (in the backward run the links
# point the other way)
CFG_DEP = gen.Cfg(facilities=False, min_tasks=3, max_tasks=5, max_workers=3, kinds=[0, 0, 2, 2, 3], max_deps_factor=2, max_time=[60], abs_max=10, due=True,
                  work_pool=[1.0, 2.0, 2.0, 3.0, 5.0], progress=False, p_auto=0, worker_abs=False, fixed_ids=False, solo=False, dup_names=6)


@st.composite
def _case_dep(draw, cfg, tier):
    case = draw(_case(cfg, tier))
    spec = case["spec"]
    n = len(spec["tasks"])
    for t in spec["tasks"]:
        if t.get("sub"):
            t.pop("sub")
            t["auto"] = False
    for tm in spec["teams"]:
        tm["targets"] = list(range(n))
        tm.pop("notask", None)
    while len(spec["workers"]) < n:
        spec["workers"].append({"team": 0, "cost": 1.0, "solo": False, "skills": {}, "fsk": {}, "abs": [], "mw": None})
    for i, w in enumerate(spec["workers"]):
        w["skills"] = {str(k): 1.0 for k in range(n)} if i >= n else {str(i): 1.0}  # one specialist per task, the rest generalists
    gen.share_skills_by_name(spec)
    if draw(st.integers(0, 3)) > 0:
        case["fault"] = None
    return case


def strategy(tier):
    if tier == "quick":
        return st.one_of(_case(CFG, tier), _case(CFG, tier), _case(CFG_N, tier), _case_dep(CFG_DEP, tier), _case_dep(CFG_DEP, tier))
    big = dict(max_tasks=9)
    return st.one_of(_case(CFG.copy(**big), tier), _case(CFG.copy(**big), tier), _case(CFG_N.copy(**big), tier), _case_dep(CFG_DEP.copy(max_tasks=7), tier))


def budget(tier):
    if tier == "quick":
        return {"cases": 3200, "shards": 8}
    return {"cases": 60000, "shards": 16}


def structure(h):
    p = h.project
    out = {"task_list": [id(t) for t in p.workflow.task_list]}
    for t in h.tasks:
        out[("in", t.ID)] = [(id(x[0]), int(x[1])) for x in t.input_task_list]
        out[("out", t.ID)] = [(id(x[0]), int(x[1])) for x in t.output_task_list]
    for wp in h.wps:
        out[("wp_in", wp.ID)] = [id(x) for x in wp.input_workplace_list]
        out[("wp_out", wp.ID)] = [id(x) for x in wp.output_workplace_list]
    out["wp_list"] = [id(w) for w in p.organization.workplace_list]
    return out


def compare_structure(before, after, res, where):
    for k in before:
        if before[k] != after.get(k):
            name = k if isinstance(k, str) else "%s of %s" % k
            res.fail(
                "C17.structure",
                "%s: %s changed (%d -> %d elements%s)" % (where, name, len(before[k]), len(after.get(k, [])), ", same elements in another order" if sorted(before[k]) == sorted(after.get(k, [])) else ""),
                sig=k if isinstance(k, str) else k[0],
            )
            return False
    return True


def run_one(spec, due, rev, fault, res, fresh_dump, want_order, via_json=False):
    h = S.build(spec)
    if via_json:
        # the model has been saved and loaded: backward_simulate works on the restored objects
        p2, _ = S.json_roundtrip(h.project, "c17.json")
        tasks = {t.ID: t for t in p2.workflow.task_list}
        wps = {w.ID: w for w in p2.organization.workplace_list}
        h = S.Handles()
        h.project = p2
        h.tasks = [tasks[S.tid(i)] for i in range(len(spec["tasks"]))]
        h.wps = [wps[S.wpid(i)] for i in range(len(spec["wps"]))]
    p = h.project
    before = structure(h)
    known = set(id(t) for t in h.tasks)
    obs = Observer(phases=(), fault=tuple(fault) if fault else None).install(p)
    raised = False
    try:
        S.backward_simulate(p, spec["opts"], considering_due_time_of_tail_tasks=due, reverse_log_information=rev)
    except InjectedFault:
        raised = True
    finally:
        Observer.uninstall(p)
    where = "backward_simulate(due=%s, reverse_log=%s, fault=%s%s)" % (due, rev, fault, " raised" if raised else "")
    after = structure(h)
    compare_structure(before, after, res, where)
    for t in p.workflow.task_list:
        if id(t) not in known:
            res.fail("C17.helper_left", "%s: helper task %s (%s) is still in workflow.task_list" % (where, t.name, t.ID), sig="task_list")
    for t in h.tasks:
        for x in t.input_task_list + t.output_task_list:
            if id(x[0]) not in known:
                res.fail("C17.helper_left", "%s: task %s still references helper task %s" % (where, t.ID, x[0].name), sig="dependency")
    steps = len(obs.steps)
    if not raised and int(p.status) == 1 and want_order:
        # FS order in the presented logs
        logs = {}
        for i, t in enumerate(h.tasks):
            lg = [int(x) for x in t.state_record_list]
            if not rev:
                lg = lg[::-1]
            w = [k for k, x in enumerate(lg) if x == S.WORKING]
            logs[i] = (min(w), max(w)) if w else None
        for a, b, kind in spec["deps"]:
            if kind == S.FS and logs[a] and logs[b] and not logs[a][1] < logs[b][0]:
                res.fail("C17.fs_order", "%s: FS predecessor %s is WORKING until %d but successor %s starts WORKING at %d (forward time)" % (where, S.tid(a), logs[a][1], S.tid(b), logs[b][0]))
    if not raised:
        bad = [(lab, ln) for lab, ln in S.all_log_lengths(p) if ln != p.time]
        if bad:
            res.fail("C17.alignment", "%s: project.time=%d but %s has %d entries" % (where, p.time, bad[0][0], bad[0][1]), sig=bad[0][0].split(".")[-1])
        if int(p.simulation_mode) != -1:
            res.fail("C17.mode", "%s: simulation_mode is %d after a backward run" % (where, int(p.simulation_mode)))
    if res.violations:
        return raised, steps  # the structure is already corrupt: a forward run on it proves nothing more
    # a later forward simulate is unaffected
    S.simulate(p, spec["opts"])
    d = S.dump(p)
    if d != fresh_dump:
        diffs = S.diff_dumps(fresh_dump, d)
        res.fail("C17.later_forward", "%s: a following simulate() differs from a fresh build: %s" % (where, "; ".join(diffs[:3])), sig="raised" if raised else "returned")
    return raised, steps


def check(case):
    res = Result()
    spec = case["spec"]
    hf = S.build(spec)
    S.simulate(hf.project, spec["opts"])
    fresh = S.dump(hf.project)
    due, rev = case["due"], case["rev"]
    via_json = bool(case.get("via_json")) and S.json_domain(spec) == spec
    res.cls("model_loaded_from_json", via_json)
    raised, steps = run_one(spec, due, rev, case["fault"], res, fresh, True, via_json=via_json)
    res.stats["backward_runs"] += 1
    tails = [i for i in range(len(spec["tasks"])) if not any(a == i for a, b, k in spec["deps"])]
    helper = due and len(set(spec["tasks"][i]["due"] for i in tails)) > 1
    res.cls("helper_tasks_created", helper)
    res.cls("fault_raised", raised)
    res.cls("reverse_log", rev)
    res.nontrivial = helper or (raised and case["fault"][0] > 0)
    if case.get("all_faults") and not res.violations:
        for j in range(steps):
            for ph in PH:
                r, _ = run_one(spec, due, rev, [j, ph], res, fresh, False)
                res.stats["enumerated_fault_points"] += 1
                if res.violations:
                    return res
    return res
