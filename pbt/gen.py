"""Hypothesis strategies for model specs (profiles W, F, N), options and index lists.

Sound first: everything generated is a model a user can build with documented constructor
arguments (see DESIGN.md section 4 for the implicit preconditions respected here).
"""
from hypothesis import strategies as st

WORK_POOL = [0.0, 0.25, 0.5, 1.0, 1.0, 1.5, 2.0, 2.0, 3.0, 4.0, 6.0]
PROG_POOL = [0.0, 0.0, 0.0, 0.0, 0.0, 0.25, 0.5, 0.75, 1.0]
SKILL_POOL = [None, 0.0, 0.5, 1.0, 1.0, 1.0, 1.5, 2.0]
COST_POOL = [0.0, 0.5, 1.0, 2.0, 3.0, 10.0]
SPACE_POOL = [0.5, 1.0, 1.0, 1.5, 2.0, 3.0]
# decimal sizes: not representable in binary, so that an exact fit on paper (0.3 - 0.1 - 0.1 against 0.1,
# 3.3 - 1.1 - 1.1 against 1.1) is a rounding error away from the component size
DEC_SPACE_POOL = [0.1, 0.1, 0.2, 0.3, 0.3, 1.1, 2.2, 3.3]
NAME_POOL = ["New Task", "New Task", "cut", "weld"]
RATE_POOL = [1.0, 1.0, 0.5, 2.0, 0.25]
ALL_KINDS = [0, 1, 2, 3]


class Cfg(object):
    """Generator configuration; each property module tunes a copy."""

    def __init__(self, **kw):
        self.min_tasks = 1
        self.max_tasks = 8
        self.kinds = [0, 0, 0, 1, 2, 3]  # dependency kinds, with weights by repetition
        self.max_deps_factor = 2
        self.shuffle_order = True
        self.max_workers = 6
        self.max_teams = 3
        self.p_auto = 8  # 1 in p_auto tasks is automatic (0 = never)
        self.progress = True
        self.worker_abs = True
        self.project_abs = True
        self.solo = True
        self.fixed_ids = True
        self.p_fix = 6  # 1 in p_fix tasks has a fixed worker-ID list (likewise a fixed facility-ID list)
        self.facilities = False  # profile F
        self.max_comps = 5
        self.max_wps = 4
        self.min_comps = 0
        self.min_wps = 0
        self.max_facs_per_wp = 3
        self.inputs = True  # conveyor links between workplaces
        # profile N: False | "assembly" (depth-1 forest, every task of a parent component FS-depends
        # on every task of its children: the shape of the suite's nested fixtures) | "free"
        # (arbitrary forest, arbitrary task assignment; only used without workplaces, D-PLC*)
        self.nested = False
        self.chain_components = False  # tasks of one component form an FS chain (C13)
        self.auto_with_component = True
        self.tie_rich = 0  # 1 in tie_rich specs draws work and skills from a 2-value pool
        self.float_mode = 0  # 1 in float_mode specs uses arbitrary floats
        self.rules = list(range(9))
        self.max_time = [60]
        self.abs_max = 25
        self.zero_work = True
        self.due = False
        self.per_task_rules = True
        self.work_pool = None  # override of WORK_POOL (dyadic mode)
        self.warm = 0  # 1 in n specs asks for a warm start (spec.warm_build: morph / graft after an earlier run)
        self.warm_modes = ["morph", "graft"]  # + "carry" / "append": the model's own run cut short, then unequal initialize flags
        self.servable = 0  # k in 4 specs get a worker (and workplace/facility) that can serve every task
        self.onesided = 0  # 1 in n teams/workplaces has some links on its own side only (0 = never)
        self.abs_p = 3  # 1 in abs_p workers (abs_p+1 facilities) has an own absence list
        self.abs_size = 4  # max length of a per-resource absence list
        self.abs_long = 6  # 1 in n per-resource absence lists is a long calendar (17-30 entries, any order)
        self.decimal_space = 4  # 1 in n specs draws component sizes and capacities from DEC_SPACE_POOL
        self.dup_names = 8  # 1 in n specs gives several tasks the same name (skills are per name)
        self.ids_flat = 8  # 1 in n specs uses the same ID strings for objects of different kinds
        self.multi_parent = 0  # 1 in n nested "free" specs gives some component a second parent
        self.org_tree = 0  # 1 in n specs sets parent_team / parent_workplace links
        self.quality = 5  # 1 in n workers has quality skills (they only feed the component error counter, no log)
        self.auto_nf = True  # automatic tasks bound to a component may be flagged need_facility
        self.default_names = 6  # 1 in n specs: workers, teams, workplaces, components all have their kind's default name
        self.unit_time = 0  # 1 in n cold-started specs is simulated with unit_time 2 or 3 (only honoured by simcheck.Sim and C07/C15)
        self.side_wf = 0  # (off) 1 in n specs: some tasks are also put into a second BaseWorkflow object - pDESy MOVES a task that way (parent_workflow is one pointer, read by the LWRPT/SWRPT rules), so such a model is a different model, see DESIGN section 4
        self.extend_style = 6  # 1 in n specs is wired through the extend_* helpers instead of append_*
        for k, v in kw.items():
            if not hasattr(self, k):
                raise AttributeError(k)
            setattr(self, k, v)

    def copy(self, **kw):
        c = Cfg()
        c.__dict__.update(self.__dict__)
        for k, v in kw.items():
            if not hasattr(c, k):
                raise AttributeError(k)
            setattr(c, k, v)
        return c


def _one_in(draw, n):
    if not n:
        return False
    return draw(st.integers(0, n - 1)) == 0


def abs_list(max_step=25, max_size=5):
    return st.lists(st.integers(0, max_step), unique=True, max_size=max_size)


@st.composite
def resource_abs(draw, cfg):
    """Absence list of one worker/facility: short (any order), or a long calendar with late additions."""
    if _one_in(draw, cfg.abs_long):
        hi = max(cfg.abs_max, 45)
        return draw(st.lists(st.integers(0, hi), unique=True, min_size=17, max_size=30))
    return draw(abs_list(cfg.abs_max, cfg.abs_size))


@st.composite
def options(draw, cfg):
    o = {
        "rule": draw(st.sampled_from(cfg.rules)),
        "abs": [],
        "auto_abs": draw(st.booleans()),
        "max_time": draw(st.sampled_from(cfg.max_time)),
    }
    if cfg.project_abs and draw(st.booleans()):
        o["abs"] = draw(abs_list(cfg.abs_max, 6))
    return o


@st.composite
def model_spec(draw, cfg):
    n = draw(st.integers(cfg.min_tasks, cfg.max_tasks))
    float_mode = _one_in(draw, cfg.float_mode)
    tie = (not float_mode) and _one_in(draw, cfg.tie_rich)

    decimal_mode = float_mode and draw(st.booleans())
    if decimal_mode:
        # decimal amounts and skills (0.1, 0.3, ...): exact multiples on paper, a rounding residue in binary - a task
        # runs out of work up to 1e-16 (the library's finish tolerance is 1e-10)
        work_s = st.sampled_from([0.3, 0.9, 1.0, 1.0, 2.0, 3.0])
        skill_s = st.sampled_from([None, 0.1, 0.1, 0.2, 0.3, 0.3, 1.0])
        prog_s = st.sampled_from([0.0, 0.0, 0.0, 0.4])
        cost_s = st.sampled_from(COST_POOL + [25 / 60.0, 7.5 / 60.0])
    elif float_mode:
        work_s = st.floats(0.0, 20.0, allow_nan=False, allow_infinity=False)
        skill_s = st.one_of(st.none(), st.floats(0.0, 3.0, allow_nan=False))
        prog_s = st.floats(0.0, 1.0, allow_nan=False)
        cost_s = st.floats(0.0, 50.0, allow_nan=False)
    elif tie:
        wp2 = draw(st.lists(st.sampled_from([0.5, 1.0, 2.0, 3.0]), min_size=1, max_size=2))
        sk2 = draw(st.lists(st.sampled_from([0.5, 1.0, 2.0]), min_size=1, max_size=2))
        work_s = st.sampled_from(wp2)
        skill_s = st.sampled_from(sk2 + [None])
        prog_s = st.sampled_from([0.0, 0.0, 0.0, 0.5])
        cost_s = st.sampled_from(COST_POOL)
    else:
        pool = cfg.work_pool if cfg.work_pool is not None else WORK_POOL
        pool = pool if cfg.zero_work else [w for w in pool if w > 0]
        work_s = st.sampled_from(pool)
        skill_s = st.sampled_from(SKILL_POOL)
        prog_s = st.sampled_from(PROG_POOL)
        cost_s = st.sampled_from(COST_POOL)
    if not cfg.progress:
        prog_s = st.just(0.0)

    # ---- organisation sizes first (tasks refer to them)
    n_workers = draw(st.integers(0, cfg.max_workers))
    n_teams = draw(st.integers(1, cfg.max_teams))
    n_comps = n_wps = 0
    facs = []
    if cfg.facilities:
        n_comps = draw(st.integers(min(cfg.min_comps, cfg.max_comps), cfg.max_comps))
        n_wps = draw(st.integers(min(cfg.min_wps, cfg.max_wps), cfg.max_wps))
        for w in range(n_wps):
            for _ in range(draw(st.integers(0, cfg.max_facs_per_wp))):
                facs.append({"wp": w})

    # ---- tasks
    tasks = []
    for i in range(n):
        t = {
            "work": draw(work_s),
            "prog": draw(prog_s),
            "auto": _one_in(draw, cfg.p_auto),
            "nf": False,
            "comp": None,
            "wpr": 0,
            "wr": -1,
            "fr": 0,
            "fixw": None,
            "fixf": None,
            "due": -1,
            "rate": 1.0,
        }
        if t["auto"]:
            t["rate"] = draw(st.sampled_from(RATE_POOL))
        if cfg.per_task_rules:
            t["wr"] = draw(st.sampled_from([-1, 0, 1, 2]))
        if cfg.due:
            t["due"] = draw(st.sampled_from([-1, 0, 3, 5, 10, 20, 30]))
        if cfg.facilities and n_comps > 0:
            if draw(st.integers(0, 3)) > 0:
                t["comp"] = draw(st.integers(0, n_comps - 1))
                if t["auto"] and not cfg.auto_with_component:
                    t["comp"] = None
            if t["comp"] is not None and not t["auto"] and n_wps > 0:
                t["nf"] = draw(st.booleans())
            elif t["comp"] is not None and t["auto"] and n_wps > 0 and cfg.auto_nf:
                # an automatic task may carry the need_facility flag: it still proceeds by its own rate, unallocated
                t["nf"] = draw(st.integers(0, 2)) == 0
            if cfg.per_task_rules:
                t["wpr"] = draw(st.sampled_from([0, 1]))
                t["fr"] = draw(st.sampled_from([-1, 0, 1, 2]))
        if cfg.fixed_ids and n_workers > 0 and _one_in(draw, cfg.p_fix):
            t["fixw"] = draw(
                st.lists(st.integers(0, n_workers - 1), unique=True, max_size=3)
            )
        if cfg.fixed_ids and t["nf"] and facs and _one_in(draw, cfg.p_fix):
            t["fixf"] = draw(
                st.lists(st.integers(0, len(facs) - 1), unique=True, max_size=3)
            )
        tasks.append(t)

    # ---- dependencies (pred < succ by index => acyclic)
    deps = []
    if n > 1:
        raw = draw(
            st.lists(
                st.tuples(
                    st.integers(0, n - 1), st.integers(0, n - 1), st.sampled_from(cfg.kinds)
                ),
                max_size=cfg.max_deps_factor * n,
            )
        )
        seen = set()
        for a, b, k in raw:
            if a == b:
                continue
            if a > b:
                a, b = b, a
            if (a, b, k) in seen:
                continue
            seen.add((a, b, k))
            deps.append([a, b, k])

    order = list(range(n))
    if cfg.shuffle_order and n > 1:
        order = list(draw(st.permutations(order)))

    # ---- components
    comps = []
    roots = []
    space_pool = DEC_SPACE_POOL if (n_comps and _one_in(draw, cfg.decimal_space)) else SPACE_POOL
    for i in range(n_comps):
        c = {"space": draw(st.sampled_from(space_pool)), "parent": None}
        if cfg.nested and i > 0 and draw(st.booleans()):
            if cfg.nested == "free":
                c["parent"] = draw(st.integers(0, i - 1))
            else:  # "assembly": depth 1 only, parents are roots
                c["parent"] = draw(st.sampled_from(roots))
        if c["parent"] is None:
            roots.append(i)
        elif cfg.nested == "free" and cfg.multi_parent and i > 1 and _one_in(draw, cfg.multi_parent):
            p2 = draw(st.integers(0, i - 1))
            if p2 != c["parent"]:
                c["parent2"] = p2  # shared sub-assembly: listed as a child of two components
        comps.append(c)
    if cfg.nested and cfg.nested != "free":
        assembly_form(tasks, deps, comps)

    # ---- teams and workers
    bool3 = st.sampled_from([True, True, True, False])
    teams = []
    for i in range(n_teams):
        flags = draw(st.lists(bool3, min_size=n, max_size=n))
        tm = {"targets": [k for k in range(n) if flags[k]]}
        if _one_in(draw, cfg.onesided) and tm["targets"]:
            tm["notask"] = sorted(set(draw(st.lists(st.sampled_from(tm["targets"]), min_size=1, max_size=3))))
        teams.append(tm)
    workers = []
    for i in range(n_workers):
        sk = draw(st.lists(skill_s, min_size=n, max_size=n))
        w = {
            "team": draw(st.integers(0, n_teams - 1)),
            "cost": draw(cost_s),
            "solo": cfg.solo and _one_in(draw, 8),
            "skills": {str(k): sk[k] for k in range(n) if sk[k] is not None},
            "fsk": {},
            "abs": [],
            "mw": None,
        }
        if cfg.worker_abs and _one_in(draw, cfg.abs_p):
            w["abs"] = draw(resource_abs(cfg))
        if _one_in(draw, cfg.quality):
            qs = draw(st.lists(st.sampled_from([None, 0.2, 0.5, 1.0]), min_size=n, max_size=n))
            w["q"] = {str(k): qs[k] for k in range(n) if qs[k] is not None}
        if facs:
            fs = draw(
                st.lists(
                    st.sampled_from([None, 0.0, 1.0, 1.0, 1.0]),
                    min_size=len(facs),
                    max_size=len(facs),
                )
            )
            w["fsk"] = {str(k): fs[k] for k in range(len(facs)) if fs[k] is not None}
        if n_wps > 0 and draw(st.booleans()):
            w["mw"] = draw(st.integers(0, n_wps - 1))
        workers.append(w)

    # ---- workplaces and facilities
    wps = []
    for i in range(n_wps):
        flags = draw(st.lists(bool3, min_size=n, max_size=n))
        wp = {
            "cap": draw(st.sampled_from(space_pool)),
            "targets": [k for k in range(n) if flags[k]],
            "inputs": [],
        }
        if _one_in(draw, cfg.onesided) and wp["targets"]:
            wp["notask"] = sorted(set(draw(st.lists(st.sampled_from(wp["targets"]), min_size=1, max_size=3))))
        if cfg.inputs and n_wps > 1 and _one_in(draw, 3):
            wp["inputs"] = [
                k
                for k in draw(
                    st.lists(st.integers(0, n_wps - 1), unique=True, max_size=2)
                )
                if k != i
            ]
            if wp["inputs"] and _one_in(draw, cfg.onesided):
                wp["inputs_onesided"] = True
        wps.append(wp)
    for f in facs:
        sk = draw(st.lists(skill_s, min_size=n, max_size=n))
        f.update(
            {
                "cost": draw(cost_s),
                "solo": cfg.solo and _one_in(draw, 8),
                "skills": {str(k): sk[k] for k in range(n) if sk[k] is not None},
                "abs": [],
            }
        )
        if cfg.worker_abs and _one_in(draw, cfg.abs_p + 1):
            f["abs"] = draw(resource_abs(cfg))

    servable = bool(cfg.servable) and draw(st.integers(0, 3)) < cfg.servable
    spec = {
        "tasks": tasks,
        "deps": deps,
        "order": order,
        "comps": comps,
        "teams": teams,
        "workers": workers,
        "wps": wps,
        "facs": facs,
        "opts": draw(options(cfg)),
    }
    if float_mode:
        spec["float_mode"] = True
    if tie:
        spec["tie_rich"] = True
    if n > 1 and _one_in(draw, cfg.dup_names):
        spec["names"] = draw(st.lists(st.sampled_from(NAME_POOL), min_size=n, max_size=n))
        share_skills_by_name(spec)
    if _one_in(draw, cfg.ids_flat):
        spec["ids"] = draw(st.sampled_from(["flat", "prefix"]))
    if n > 1 and _one_in(draw, cfg.side_wf):
        spec["side_wf"] = sorted(set(draw(st.lists(st.integers(0, n - 1), min_size=1, max_size=3))))
    if _one_in(draw, cfg.extend_style):
        spec["extend"] = True
    if _one_in(draw, cfg.default_names):
        spec["default_names"] = True
    if _one_in(draw, cfg.org_tree):
        for k, tm in enumerate(teams):
            if n_teams > 1 and draw(st.booleans()):
                tm["parent"] = draw(st.sampled_from([j for j in range(n_teams) if j != k]))
        for k, wp in enumerate(wps):
            if n_wps > 1 and draw(st.booleans()):
                wp["parent"] = draw(st.sampled_from([j for j in range(n_wps) if j != k]))
    if servable:
        make_servable(spec)
    if _one_in(draw, cfg.unit_time):
        spec["unit_time"] = draw(st.sampled_from([2, 3]))
    if _one_in(draw, cfg.warm):
        spec["warm"] = {"mode": draw(st.sampled_from(cfg.warm_modes)), "k": draw(st.integers(1, 3))}
    return spec


# --------------------------------------------------------------------------------------------
# structural helpers on specs (used by repair steps and classifiers)
# --------------------------------------------------------------------------------------------
def preds(spec):
    """succ index -> list of (pred index, kind), in input_task_list order."""
    out = {i: [] for i in range(len(spec["tasks"]))}
    for a, b, k in spec.get("deps", []):
        out[b].append((a, k))
    return out


def succs(spec):
    out = {i: [] for i in range(len(spec["tasks"]))}
    for a, b, k in spec.get("deps", []):
        out[a].append((b, k))
    return out


def fs_reach(spec, strict=False):
    """reach[a] = set of tasks reachable from a through FS edges only.

    strict: paths may not pass through a task that is complete by default progress (such a task is FINISHED
    from the start and does not hold its successors back).
    """
    n = len(spec["tasks"])
    adj = {i: set() for i in range(n)}
    for a, b, k in spec.get("deps", []):
        if k == 0:
            adj[a].add(b)
    reach = {i: set() for i in range(n)}
    for i in reversed(range(n)):  # pred < succ, so successors have larger indices
        for j in adj[i]:
            reach[i].add(j)
            if not (strict and spec["tasks"][j].get("prog", 0.0) >= 1.0 - 1e-10):
                reach[i] |= reach[j]
    return reach


def chain_components(spec):
    """Repair step for C13 (D-PLC1 region): make the tasks of every component an FS chain.

    Returns the number of FS edges added.
    """
    added = 0
    by_comp = {}
    for i, t in enumerate(spec["tasks"]):
        if t.get("comp") is not None:
            by_comp.setdefault(t["comp"], []).append(i)
    reach = fs_reach(spec)
    for c, ts in sorted(by_comp.items()):
        for a, b in zip(ts, ts[1:]):
            if b not in reach[a]:
                spec["deps"].append([a, b, 0])
                added += 1
                reach = fs_reach(spec)
    return added


def assembly_form(tasks, deps, comps):
    """Profile N repair: child-component tasks precede (by index and by FS path) parent-component tasks.

    The component assignment is permuted among the tasks that have one so that every task of a child
    component has a smaller index than every task of its parent; then the missing FS edges are added.
    """
    idxs = [i for i, t in enumerate(tasks) if t.get("comp") is not None]
    vals = sorted((tasks[i]["comp"] for i in idxs), key=lambda c: (comps[c]["parent"] is None, c))
    for i, c in zip(idxs, vals):
        tasks[i]["comp"] = c
    spec = {"tasks": tasks, "deps": deps}
    by_comp = {}
    for i, t in enumerate(tasks):
        if t.get("comp") is not None:
            by_comp.setdefault(t["comp"], []).append(i)
    reach = fs_reach(spec, strict=True)
    for c, cs in enumerate(comps):
        if cs["parent"] is None:
            continue
        for a in by_comp.get(c, []):
            for b in by_comp.get(cs["parent"], []):
                if a < b and b not in reach[a]:
                    deps.append([a, b, 0])
                    reach = fs_reach(spec, strict=True)


def share_skills_by_name(spec):
    """Skills are stored per task *name*: tasks that share a name share every worker's and facility's skill value
    (the value of the first task of that name). Keeps the spec's per-index skill tables truthful."""
    names = spec.get("names")
    if not names:
        return
    first = {}
    for i, nm in enumerate(names):
        first.setdefault(nm, i)
    for r in list(spec["workers"]) + list(spec["facs"]):
        sk = r.get("skills", {})
        new = {}
        for i, nm in enumerate(names):
            v = sk.get(str(first[nm]))
            if v is not None:
                new[str(i)] = v
        r["skills"] = new


def single_task_components(spec, keep_space=False):
    """Profile "pairs": every component-bound, non-automatic task becomes a facility task on a component of its own
    (flat product), so that the worker-facility pair clauses of C06/C11 apply to it. keep_space: the new component
    has the size of the one the task was bound to (components then compete for room), else 0.5."""
    comps = []
    has_wp = bool(spec["wps"])
    old = spec["comps"]
    for t in spec["tasks"]:
        if t.get("comp") is not None and not t["auto"] and has_wp:
            t["nf"] = True
            comps.append({"space": old[t["comp"]]["space"] if keep_space else 0.5, "parent": None})
            t["comp"] = len(comps) - 1
        else:
            t["comp"] = None
            t["nf"] = False
            t["fixf"] = None
    spec["comps"] = comps
    return spec


@st.composite
def pairs_spec(draw, cfg, keep_space=None):
    """model_spec in the "pairs" profile; half of the time the components keep their generated sizes."""
    spec = draw(model_spec(cfg))
    return single_task_components(spec, keep_space=draw(st.booleans()) if keep_space is None else keep_space)


@st.composite
def dense_pairs_spec(draw, cfg, max_workers=2):
    """Pairs profile in which everybody can do everything (all skills positive, every team and workplace serves every
    task, room for all components, few workers): who gets a worker is then decided by the priority order alone, also
    for tasks with nothing left to do (zero work, or held WORKING by a finish-to-finish link). With more workers
    several worker-facility pairs work on one task at once."""
    spec = single_task_components(draw(model_spec(cfg)))
    n = len(spec["tasks"])
    for tm in spec["teams"]:
        tm["targets"] = list(range(n))
        tm.pop("notask", None)
    for wp in spec["wps"]:
        wp["targets"] = list(range(n))
        wp.pop("notask", None)
        wp["cap"] = 100.0
    for f in spec["facs"]:
        f["skills"] = {str(i): draw(st.sampled_from([0.5, 1.0, 1.0])) for i in range(n)}
        f["solo"] = False
    spec["workers"] = spec["workers"][: draw(st.integers(1, max_workers))]
    for w in spec["workers"]:
        w["skills"] = {str(i): draw(st.sampled_from([0.5, 1.0, 1.0])) for i in range(n)}
        w["fsk"] = {str(j): 1.0 for j in range(len(spec["facs"]))}
        w["solo"] = draw(st.booleans()) if max_workers <= 2 else False
    for t in spec["tasks"]:
        t["fixw"] = None
        t["fixf"] = None
    share_skills_by_name(spec)
    return spec


@st.composite
def pinned_spec(draw, cfg):
    """Pairs profile in which many facility tasks insist on one facility that can really serve them (and some also on
    one or two of the workers): several tasks want the same facility in the same step, and skilled workers who are
    not on a task's list stand next to an allowed facility."""
    spec = draw(pairs_spec(cfg))
    if spec["facs"]:
        for ti, t in enumerate(spec["tasks"]):
            if t["nf"] and draw(st.booleans()):
                fi = draw(st.integers(0, len(spec["facs"]) - 1))
                f = spec["facs"][fi]
                t["fixf"] = [fi]
                f["skills"][str(ti)] = 1.0
                f["solo"] = False
                wp = spec["wps"][f["wp"]]
                if ti not in wp["targets"]:
                    wp["targets"] = sorted(wp["targets"] + [ti])
                for w in spec["workers"]:
                    if draw(st.booleans()):
                        w["fsk"][str(fi)] = 1.0
                if spec["workers"] and draw(st.booleans()):
                    t["fixw"] = draw(st.lists(st.integers(0, len(spec["workers"]) - 1), min_size=1, max_size=2, unique=True))
        share_skills_by_name(spec)
    return spec


def make_servable(spec):
    """Repair step used by the differential properties: add one worker who can do every task (and, if some task
    needs a facility, one big workplace with one facility that can do everything), so that most generated models
    run to FINISHED_SUCCESS instead of idling until max_time. Contention is kept: it is still one worker."""
    n = len(spec["tasks"])
    if not spec["teams"]:
        spec["teams"].append({"targets": []})
    t0 = spec["teams"][0]
    t0["targets"] = sorted(set(t0["targets"]) | set(range(n)))
    if any(t["nf"] for t in spec["tasks"]):
        total = sum(c["space"] for c in spec["comps"]) + 1.0
        spec["wps"].append({"cap": total, "targets": list(range(n)), "inputs": []})
        spec["facs"].append({"wp": len(spec["wps"]) - 1, "cost": 1.0, "solo": False, "skills": {str(i): 1.0 for i in range(n)}, "abs": []})
    spec["workers"].append(
        {
            "team": 0,
            "cost": 1.0,
            "solo": False,
            "skills": {str(i): 1.0 for i in range(n)},
            "fsk": {str(k): 1.0 for k in range(len(spec["facs"]))},
            "abs": [],
            "mw": None,
        }
    )
    for t in spec["tasks"]:
        if t.get("fixw") is not None:
            t["fixw"] = list(t["fixw"]) + [len(spec["workers"]) - 1]
        if t.get("fixf") is not None and t["nf"]:
            t["fixf"] = list(t["fixf"]) + [len(spec["facs"]) - 1]
    return spec
