"""C07 - cost accounting adds up at every level and charges only working resources."""
from .. import gen
from .. import spec as S
from ..core import Result

PID = "C07"
LEVEL = "exploration"
RULE = (
    "Hypothesis-generated model specs (profiles W and F: 1-8 tasks, all four dependency kinds, "
    "0-6 workers in 1-3 teams, 0-4 workplaces with 0-3 facilities, cost rates incl. 0, per-resource "
    "and project-wide absence lists, all nine task rules, runs cut by max_time too) simulated once; "
    "every cost log entry of every level is recomputed from the state logs and the spec; the same is re-checked "
    "after 0-2 generated remove/insert_absence_time_list edits of the result (indices inside the run, at its last "
    "step and just beyond its end); one run in three is paused at a generated step and continued with both "
    "initialize flags off before it is checked. "
    'One run in three uses simulate(unit_time=2 or 3): absence lists are then in time units, every level is still charged once per step. '
    'One run in four is written to JSON, read into a new project and the whole accounting is checked again there. '
    'One run in five is a backward_simulate (state-based clauses on the mirrored result). '
    "Non-trivial = at least two resources with different non-zero rates of which one is logged "
    "WORKING at a step where another one is idle or absent; distinct by canonical spec hash."
)
ASSUMPTIONS = [
    "skill standard deviations are 0; unit_time=1; task_performed_mode='multi-workers'",
    "dyadic cost values are compared exactly, float-mode values with relative tolerance 1e-9",
]

CFG = gen.Cfg(warm=4, facilities=True, float_mode=5, max_time=[40, 80], abs_p=2, abs_size=6, abs_max=12, ids_flat=3)


def strategy(tier):
    from hypothesis import strategies as st

    cfg = CFG if tier == "quick" else CFG.copy(max_tasks=12, max_workers=8, float_mode=3)

    @st.composite
    def case(draw):
        spec = draw(gen.model_spec(cfg))
        # the same accounting must hold after the result has been edited (C18 operations)
        spec["edits"] = draw(
            st.lists(
                st.one_of(st.just(["remove"]), st.lists(st.integers(0, 60), min_size=1, max_size=3).map(lambda l: ["insert", l])),
                max_size=2,
            )
        )
        # ... and when the run was paused at a step and continued (both initialize flags off)
        if draw(st.integers(0, 2)) == 0:
            spec["pause"] = draw(st.integers(0, 12))
        # one step may cover several time units (simulate(unit_time=u)): absence lists are then in time units, the
        # logs still have one entry per step, and cost_per_time is charged once per step at every level
        spec["unit_time"] = draw(st.sampled_from([1, 1, 1, 2, 3]))
        spec["via_json"] = draw(st.integers(0, 3)) == 0
        spec["backward_run"] = draw(st.integers(0, 4)) == 0
        return spec

    return case()


def budget(tier):
    if tier == "quick":
        return {"cases": 2000, "shards": 4}
    return {"cases": 64000, "shards": 16}


def _eq(a, b, tol):
    if tol == 0.0:
        return a == b
    return abs(a - b) <= tol * max(1.0, abs(a), abs(b))


def check(spec):
    res = Result()
    h = S.warm_build(spec)
    p = h.project
    u = int(spec.get("unit_time", 1))
    extra = {"unit_time": u} if u != 1 else {}
    if spec.get("backward_run") and u == 1 and spec.get("pause") is None and not any(c.get("parent") is not None for c in spec["comps"]):
        # the accounting of a backward-simulated (log-reversed) result; which steps were absence steps is left to the
        # library's own mirrored list, so only the state-based clauses are evaluated
        S.backward_simulate(p, spec["opts"])
        res.cls("backward_run")
        check_costs(spec, h, res, absn=set(), where=" after backward_simulate")
        return res
    if spec.get("pause") is not None:
        S.simulate(p, dict(spec["opts"], max_time=spec["pause"]), **extra)
        S.simulate(p, spec["opts"], initialize_state_info=False, initialize_log_info=False, **extra)
        res.cls("paused_and_continued")
    else:
        S.simulate(p, spec["opts"], **extra)
    if u != 1:
        res.cls("unit_time_%d" % u)
        # step i covers the time i*u: it is a project-wide absence step when that time is on the list
        check_costs(spec, h, res, absn=set(a // u for a in spec["opts"].get("abs", []) if a % u == 0))
        return res  # (the edit operations index the logs by time and are only meaningful for unit_time=1)
    res.cls("warm_" + str((spec.get("warm") or {}).get("mode")), bool(spec.get("warm")))
    check_costs(spec, h, res)
    nt = res.nontrivial
    if spec.get("via_json") and not res.violations:
        # the saved and re-loaded result carries the same accounting
        p2, _ = S.json_roundtrip(p)
        h2 = S.Handles()
        h2.project = p2
        teams = {t.ID: t for t in p2.organization.team_list}
        wps = {w.ID: w for w in p2.organization.workplace_list}
        workers = {w.ID: w for t in p2.organization.team_list for w in t.worker_list}
        facs = {f.ID: f for w in p2.organization.workplace_list for f in w.facility_list}
        h2.teams = [teams[S.tmid(i)] for i in range(len(spec["teams"]))]
        h2.wps = [wps[S.wpid(i)] for i in range(len(spec["wps"]))]
        h2.workers = [workers[S.wid(i)] for i in range(len(spec["workers"]))]
        h2.facs = [facs[S.fid(i)] for i in range(len(spec["facs"]))]
        res.cls("result_loaded_from_json")
        check_costs(spec, h2, res, where=" on the project loaded from its JSON file")
        res.nontrivial = nt
    for op in spec.get("edits", []):
        if res.violations:
            break
        n = len(p.cost_list)
        if op[0] == "remove":
            p.remove_absence_time_list()
        else:
            # indices 0..n+1: inside the run, the last step, and just beyond the end
            p.insert_absence_time_list(sorted(set(x % (n + 2) for x in op[1])))
        res.cls("edited_" + op[0])
        check_costs(spec, h, res, absn=set(), where=" after %s" % op)
    res.nontrivial = nt
    return res


def check_costs(spec, h, res, absn=None, where=""):
    p = h.project
    tol = 1e-9 if spec.get("float_mode") else 0.0
    n = len(p.cost_list)
    if absn is None:
        absn = set(spec["opts"].get("abs", []))
    res.stats["steps"] += n
    res.cls("facilities", bool(spec.get("facs")))
    res.cls("project_absence_inside_run", any(a < n for a in absn))
    res.cls("status_failure", int(p.status) == -1)

    if p.cost_list != p.organization.cost_list and not (
        tol and len(p.cost_list) == len(p.organization.cost_list)
        and all(_eq(a, b, tol) for a, b in zip(p.cost_list, p.organization.cost_list))
    ):
        res.fail("C07.project_eq_org", "project.cost_list %s != organization.cost_list %s%s" % (p.cost_list[:8], p.organization.cost_list[:8], where))
    groups = []  # (kind, group object, members, member specs)
    for i, tm in enumerate(h.teams):
        mem = [(w, spec["workers"][k]) for k, w in enumerate(h.workers) if spec["workers"][k]["team"] == i]
        groups.append(("team", tm, mem))
    for i, wp in enumerate(h.wps):
        mem = [(f, spec["facs"][k]) for k, f in enumerate(h.facs) if spec["facs"][k]["wp"] == i]
        groups.append(("workplace", wp, mem))

    total_ref = 0.0
    rates_working_while_other_idle = False
    for kind, g, mem in groups:
        if len(g.cost_list) != n:
            res.fail("C07.length", "%s %s cost_list has %d entries, project %d" % (kind, g.ID, len(g.cost_list), n))
            return
        for r, rs in mem:
            if len(r.cost_list) != n or len(r.state_record_list) != n:
                res.fail("C07.length", "%s cost/state log length != %d" % (r.ID, n))
                return
    for k in range(n):
        org_sum = 0.0
        working_rates = set()
        idle_rates = set()
        for kind, g, mem in groups:
            gsum = 0.0
            for r, rs in mem:
                st = int(r.state_record_list[k])
                rate = rs["cost"]
                exp = rate if st == S.R_WORKING else 0.0
                if k in absn:
                    if st != S.R_ABSENCE:
                        res.fail("C07.absence_state", "%s logged %d at project-wide absence step %d" % (r.ID, st, k))
                    if r.cost_list[k] != 0.0:
                        res.fail("C07.absence_charged", "%s charged %r at project-wide absence step %d" % (r.ID, r.cost_list[k], k), sig=kind)
                if not _eq(r.cost_list[k], exp, tol):
                    res.fail(
                        "C07.resource_cost",
                        "%s step %d: state %d, cost_per_time %r, charged %r" % (r.ID, k, st, rate, r.cost_list[k]),
                        sig=kind + ("_working" if st == S.R_WORKING else "_notworking"),
                    )
                gsum += r.cost_list[k]
                if rate > 0:
                    (working_rates if st == S.R_WORKING else idle_rates).add(rate)
            if not _eq(g.cost_list[k], gsum, tol):
                res.fail("C07.group_sum", "%s %s step %d: %r != sum of members %r" % (kind, g.ID, k, g.cost_list[k], gsum), sig=kind)
            org_sum += g.cost_list[k]
        if not _eq(p.organization.cost_list[k], org_sum, tol):
            res.fail("C07.org_sum", "organization step %d: %r != teams+workplaces %r" % (k, p.organization.cost_list[k], org_sum))
        if k in absn and p.cost_list[k] != 0.0:
            res.fail("C07.absence_charged", "project charged %r at absence step %d" % (p.cost_list[k], k), sig="project")
        if working_rates and (idle_rates - working_rates or len(working_rates) > 1 and idle_rates):
            rates_working_while_other_idle = True
    # total
    for kind, g, mem in groups:
        for r, rs in mem:
            total_ref += rs["cost"] * sum(1 for s in r.state_record_list if int(s) == S.R_WORKING)
    total = sum(p.cost_list)
    if not _eq(total, total_ref, tol if tol else 1e-12):
        res.fail("C07.total", "sum(project.cost_list)=%r, sum(rate*#WORKING)=%r" % (total, total_ref))
    res.nontrivial = rates_working_while_other_idle
    return res

TECHNIQUE = "property-based testing (Hypothesis): generated models, cost logs recomputed from state logs and spec"
LEVEL_TEXT = (
    "Generated-input search: every cost entry at every aggregation level of every generated run is recomputed "
    "from the resource state logs and the model spec; not a proof, the evidence reports how many distinct "
    "non-trivial models were explored."
)
LEVEL_NOTE = "Trusts the state logs (tied to live state by C08) and the spec->model builder; deterministic skills."
