"""One observed forward run + the per-step oracles that share it (C01, C02, C03, C04, C06, C10-A, C14)."""
from . import gen
from . import spec as S
from .observe import PHASES, Observer, T_AF, T_AW, T_REM, T_STATE

TOL = 1e-10
RANK = {S.NONE: 0, S.READY: 1, S.WORKING: 2, S.FINISHED: 3}


class Sim(object):
    """A generated model, simulated once under the step observer."""

    def __init__(self, spec, phases=PHASES, opts=None, pre=None, **build_kw):
        self.spec = spec
        self.opts = opts if opts is not None else spec["opts"]
        self.h = S.warm_build(spec, **build_kw)
        self.p = self.h.project
        if pre is not None:
            pre(self.h)  # something that happens to the project before the observed run
        self.obs = Observer(phases=phases).install(self.p)
        self.t0 = getattr(self.h, "t0", 0)  # time at which the observed run starts ("append" warm start)
        # spec["backward"]: the observed run is the inner run of backward_simulate (dependencies reversed; the logs
        # are left in the time of that run) - only for oracles that do not look at dependencies
        self.backward = bool(spec.get("backward")) and not spec.get("warm")
        # spec["unit_time"] = u > 1: one step covers u time units (cold forward runs only). Steps, snapshots and logs
        # are indexed by step; absence lists are in time units: step s is at time s*u.
        self.u = int(spec.get("unit_time", 1)) if not (spec.get("warm") or self.backward) else 1
        try:
            if self.backward:
                S.backward_simulate(self.p, self.opts, reverse_log_information=False)
            elif self.u != 1:
                S.simulate(self.p, self.opts, unit_time=self.u)
            else:
                S.simulate(self.p, self.opts, **getattr(self.h, "sim_extra", {}))
        finally:
            Observer.uninstall(self.p)
        # steps are indexed by time: an appended run is preceded by one empty entry per step of the earlier run
        self.steps = [{} for _ in range(self.t0)] + self.obs.steps
        self.N = len(self.p.cost_list)
        self.absn = set(a // self.u for a in self.opts.get("abs", []) if a % self.u == 0)  # project-wide absence STEPS
        self.tasks = spec["tasks"]
        self.n = len(self.tasks)
        self.preds = gen.preds(spec)
        self.float_mode = bool(spec.get("float_mode"))
        self.warm = (spec.get("warm") or {}).get("mode")
        self.exempt = [t.get("prog", 0.0) >= 1.0 - TOL for t in self.tasks]
        if getattr(self.h, "sim_extra", {}).get("initialize_log_info") is False:
            # BaseTask.initialize marks a task that is complete by default progress FINISHED only when state and log
            # are initialized together; in an appended run it starts NONE with nothing left to do like any other task
            self.exempt = [False] * len(self.tasks)
        self.tids = [S.tid(i) for i in range(self.n)]
        self.wids = [S.wid(i) for i in range(len(spec["workers"]))]
        self.fids = [S.fid(i) for i in range(len(spec["facs"]))]
        self.widx = {w: i for i, w in enumerate(self.wids)}
        self.fidx = {f: i for i, f in enumerate(self.fids)}
        self.tidx = {t: i for i, t in enumerate(self.tids)}

    # ---- static predicates -------------------------------------------------------------
    def wskill(self, wi, ti):
        return self.spec["workers"][wi]["skills"].get(str(ti))

    def fskill(self, fi, ti):
        return self.spec["facs"][fi]["skills"].get(str(ti))

    def worker_absent(self, wi, k):
        return k in self.absn or k * self.u in self.spec["workers"][wi]["abs"]

    def fac_absent(self, fi, k):
        return k in self.absn or k * self.u in self.spec["facs"][fi]["abs"]

    def worker_eligible(self, wi, ti, k):
        """Static eligibility of worker wi for a *new* allocation to task ti at step k (C04)."""
        w = self.spec["workers"][wi]
        t = self.tasks[ti]
        s = w["skills"].get(str(ti))
        if s is None or not s > TOL:
            return False
        if ti not in self.spec["teams"][w["team"]]["targets"]:
            return False
        if self.worker_absent(wi, k):
            return False
        if t.get("fixw") is not None and wi not in t["fixw"]:
            return False
        return True

    def fac_eligible(self, fi, ti):
        f = self.spec["facs"][fi]
        t = self.tasks[ti]
        s = f["skills"].get(str(ti))
        if s is None or not s > TOL:
            return False
        if ti not in self.spec["wps"][f["wp"]]["targets"]:
            return False
        if t.get("fixf") is not None and fi not in t["fixf"]:
            return False
        return True

    def can_operate(self, wi, fi):
        s = self.spec["workers"][wi]["fsk"].get(str(fi))
        return s is not None and s > TOL

    # ---- dynamic helpers ---------------------------------------------------------------
    def started(self, snap, ti):
        return snap["tasks"][self.tids[ti]][T_STATE] in (S.WORKING, S.FINISHED)

    def finished(self, snap, ti):
        return snap["tasks"][self.tids[ti]][T_STATE] == S.FINISHED

    def start_deps_ok(self, snap, ti):
        for a, k in self.preds[ti]:
            if k == S.FS and not self.finished(snap, a):
                return False
            if k == S.SS and not self.started(snap, a):
                return False
        return True

    def finish_deps_ok(self, snap, ti):
        for a, k in self.preds[ti]:
            if k == S.FF and not self.finished(snap, a):
                return False
            if k == S.SF and not self.started(snap, a):
                return False
        return True

    def flat_snaps(self):
        """[(step, phase, snap)] in time order."""
        out = []
        for s, d in enumerate(self.steps):
            for ph in PHASES:
                if ph in d:
                    out.append((s, ph, d[ph]))
        return out


# ================================================================================================
# C01
# ================================================================================================
ALLOWED = {
    "updated": {(S.NONE, S.READY), (S.WORKING, S.FINISHED)},
    "allocated": {(S.READY, S.WORKING)},
    "performed": set(),
    "recorded": set(),
}


def check_c01(sim, res):
    spec = sim.spec
    flat = sim.flat_snaps()
    nonfs = any(k != S.FS and not sim.exempt[b] for a, b, k in spec["deps"])
    res.cls("has_SS", any(k == S.SS for _, _, k in spec["deps"]))
    res.cls("has_FF", any(k == S.FF for _, _, k in spec["deps"]))
    res.cls("has_SF", any(k == S.SF for _, _, k in spec["deps"]))
    res.cls("project_absence_inside_run", any(a < sim.N for a in sim.absn))
    delayed = False
    for ti in range(sim.n):
        t_id = sim.tids[ti]
        prev = None
        first_non_none = None
        first_finished = None
        for (s, ph, sn) in flat:
            st = sn["tasks"][t_id][T_STATE]
            if st not in RANK:
                res.fail("C01.state_domain", "task %s has state %r at step %d/%s" % (t_id, st, s, ph))
                return
            if prev is not None and st != prev:
                if RANK[st] < RANK[prev]:
                    res.fail(
                        "C01.backward",
                        "task %s moved %d -> %d at step %d/%s" % (t_id, prev, st, s, ph),
                        sig="%d>%d" % (prev, st),
                    )
                elif (prev, st) not in ALLOWED[ph]:
                    # where in a step a transition happens is an implementation choice, not part of C01:
                    # counted, never reported
                    res.stats["transitions_outside_usual_phase"] += 1
            if st != S.NONE and first_non_none is None:
                first_non_none = (s, ph, sn)
            if st == S.FINISHED and first_finished is None:
                first_finished = (s, ph, sn)
            prev = st
        if sim.exempt[ti]:
            continue
        if first_non_none is not None:
            s, ph, sn = first_non_none
            if (s, ph) != (0, "updated"):
                delayed = True
            for a, k in sim.preds[ti]:
                if k == S.FS and not sim.finished(sn, a):
                    res.fail("C01.FS", "task %s left NONE at step %d/%s while FS predecessor %s is not FINISHED" % (t_id, s, ph, sim.tids[a]))
                if k == S.SS and not sim.started(sn, a):
                    res.fail("C01.SS", "task %s left NONE at step %d/%s while SS predecessor %s has not started" % (t_id, s, ph, sim.tids[a]))
        if first_finished is not None:
            s, ph, sn = first_finished
            for a, k in sim.preds[ti]:
                if k == S.FF and not sim.finished(sn, a):
                    res.fail("C01.FF", "task %s FINISHED at step %d/%s while FF predecessor %s is not FINISHED" % (t_id, s, ph, sim.tids[a]))
                if k == S.SF and not sim.started(sn, a):
                    res.fail("C01.SF", "task %s FINISHED at step %d/%s while SF predecessor %s has not started" % (t_id, s, ph, sim.tids[a]))
    # finish delayed by FF/SF: WORKING with zero remaining at an 'updated' snapshot
    for s, d in enumerate(sim.steps):
        sn = d.get("updated")
        if sn is None:
            continue
        for ti in range(sim.n):
            tt = sn["tasks"][sim.tids[ti]]
            if tt[T_STATE] == S.WORKING and tt[T_REM] < TOL and any(k in (S.FF, S.SF) for _, k in sim.preds[ti]):
                delayed = True
    # the log shows the live state (display rule on project-wide absence steps)
    for ti in range(sim.n):
        task = sim.h.tasks[ti]
        log = task.state_record_list
        if len(log) != sim.N:
            res.fail("C01.log_length", "task %s state log has %d entries, %d steps" % (task.ID, len(log), sim.N))
            continue
        for k in range(sim.t0, sim.N):
            live = sim.steps[k]["recorded"]["tasks"][task.ID][T_STATE]
            exp = S.READY if (k in sim.absn and live == S.WORKING) else live
            if int(log[k]) != exp:
                res.fail("C01.log_vs_live", "task %s log[%d]=%d, live %d (absence step: %s)" % (task.ID, k, int(log[k]), live, k in sim.absn))
                break
        for k in range(sim.t0 + 1, sim.N):
            a, b = int(log[k - 1]), int(log[k])
            if RANK[b] < RANK[a] and not (a == S.WORKING and b == S.READY and k in sim.absn):
                res.fail("C01.log_backward", "task %s log moves %d -> %d at index %d" % (task.ID, a, b, k), sig="%d>%d" % (a, b))
    res.nontrivial = nonfs and delayed
    res.stats["steps"] += sim.N


# ================================================================================================
# C02 (also provides the contribution reference used by C10)
# ================================================================================================
def _working_count(sim, sn, kind, rid):
    """number of live-WORKING tasks among the resource's assigned tasks (1 whenever C03 holds)."""
    assigned = sn["workers" if kind == "w" else "facs"][rid][1]
    return sum(1 for t in assigned if sn["tasks"][t][T_STATE] == S.WORKING)


def contribution(sim, k, ti):
    """Reference progress of task ti at step k (task is live WORKING in the 'allocated' snapshot).

    Returns (progress, n_contributors, absent_contributor, valid). Resource ABSENCE is taken from the
    static absence lists (own list or project-wide step).
    """
    t = sim.tasks[ti]
    sn = sim.steps[k]["allocated"]
    tt = sn["tasks"][sim.tids[ti]]
    if k in sim.absn:
        if t["auto"] and sim.opts.get("auto_abs"):
            return t.get("rate", 1.0), 0, False
        return 0.0, 0, False
    if t["auto"]:
        return t.get("rate", 1.0), 0, False
    aw, af = tt[T_AW], tt[T_AF]
    prog = 0.0
    ncontrib = 0
    absent = False
    if t["nf"]:
        for i in range(min(len(aw), len(af))):
            wi, fi = sim.widx[aw[i]], sim.fidx[af[i]]
            ws = sim.wskill(wi, ti)
            fs = sim.fskill(fi, ti)
            wp = 0.0
            fp = 0.0
            if ws is not None and ws > TOL and not sim.worker_absent(wi, k):
                wp = ws / float(max(1, _working_count(sim, sn, "w", aw[i])))
            if fs is not None and fs > TOL and not sim.fac_absent(fi, k):
                fp = fs / float(max(1, _working_count(sim, sn, "f", af[i])))
            if sim.worker_absent(wi, k) or sim.fac_absent(fi, k):
                absent = True
            prog += wp * fp
            ncontrib += 1
    else:
        for w in aw:
            wi = sim.widx[w]
            ws = sim.wskill(wi, ti)
            if sim.worker_absent(wi, k):
                absent = True
            elif ws is not None and ws > TOL:
                prog = prog + ws / float(max(1, _working_count(sim, sn, "w", w)))
            ncontrib += 1
    return prog, ncontrib, absent


def _feq(a, b, fm):
    if not fm:
        return a == b
    return abs(a - b) <= 1e-9 * max(1.0, abs(a), abs(b))


def check_c02(sim, res):
    fm = sim.float_mode
    res.cls("float_mode", fm)
    res.cls("facilities", bool(sim.spec["facs"]))
    nontrivial = False
    for ti in range(sim.n):
        task = sim.h.tasks[ti]
        t = sim.tasks[ti]
        rem = task.remaining_work_amount_record_list
        if len(rem) != sim.N:
            res.fail("C02.log_length", "task %s remaining log has %d entries, %d steps" % (task.ID, len(rem), sim.N))
            continue
        prev = t["work"] * (1.0 - t["prog"])
        rich = False
        finished_at = None
        for k in range(sim.t0, sim.N):
            upd = sim.steps[k]["updated"]["tasks"][task.ID]
            alloc = sim.steps[k]["allocated"]["tasks"][task.ID]
            live_upd, live = upd[T_STATE], alloc[T_STATE]
            if live_upd == S.FINISHED and not sim.exempt[ti]:
                if finished_at is None:
                    finished_at = k
                    if k == sim.t0:
                        res.fail("C02.finish_early", "task %s FINISHED at the first step without complete default progress" % task.ID)
                    else:
                        before = sim.steps[k - 1]["recorded"]["tasks"][task.ID]
                        if not before[T_REM] < TOL:
                            res.fail("C02.finish_early", "task %s FINISHED at step %d with remaining %r before" % (task.ID, k, before[T_REM]))
                        if before[T_STATE] != S.WORKING:
                            res.stats["finished_from_other_state_than_working"] += 1  # not part of C02's statement
                if rem[k] != 0.0:
                    res.fail("C02.finished_remaining", "task %s FINISHED but remaining logged %r at step %d" % (task.ID, rem[k], k))
                prev = rem[k]
                continue
            if live == S.WORKING:
                exp, nc, absent = contribution(sim, k, ti)
                if nc >= 2 or absent:
                    rich = True
                if not _feq(prev - rem[k], exp, fm) and not _feq(rem[k], prev - exp, fm):
                    res.fail(
                        "C02.progress",
                        "task %s step %d: remaining %r -> %r, reference contribution %r (workers %s facilities %s)"
                        % (task.ID, k, prev, rem[k], exp, list(alloc[T_AW]), list(alloc[T_AF])),
                        sig=("auto" if t["auto"] else ("pair" if t["nf"] else "workers")) + ("_abs" if k in sim.absn else ""),
                    )
            else:
                if rem[k] != prev:
                    res.fail("C02.idle_change", "task %s in state %d at step %d but remaining %r -> %r" % (task.ID, live, k, prev, rem[k]), sig=str(live))
            prev = rem[k]
        # converse finish clause: zero remaining + finish dependencies at the end of step k-1 => FINISHED at k
        for k in range(1, len(sim.steps)):
            before = sim.steps[k - 1].get("recorded")
            now = sim.steps[k].get("updated")
            if before is None or now is None:
                continue
            b = before["tasks"][task.ID]
            if b[T_STATE] == S.WORKING and b[T_REM] < TOL and sim.finish_deps_ok(before, ti):
                if now["tasks"][task.ID][T_STATE] != S.FINISHED:
                    res.fail("C02.finish_late", "task %s had remaining %r and finish dependencies at the end of step %d but is %d at step %d" % (task.ID, b[T_REM], k - 1, now["tasks"][task.ID][T_STATE], k))
        if rich and finished_at is not None:
            nontrivial = True
    res.nontrivial = nontrivial
    res.stats["task_steps"] += sim.N * sim.n


# ================================================================================================
# C03
# ================================================================================================
def check_c03(sim, res):
    spec = sim.spec
    contention = False
    pair = False
    for s, d in enumerate(sim.steps):
        for ph in ("updated", "allocated", "recorded"):
            sn = d.get(ph)
            if sn is None:
                continue
            holders_w = {}
            holders_f = {}
            for t_id, tt in sn["tasks"].items():
                aw, af = tt[T_AW], tt[T_AF]
                if len(set(aw)) != len(aw) or len(set(af)) != len(af):
                    res.fail("C03.duplicate", "task %s lists a resource twice at step %d/%s: %s %s" % (t_id, s, ph, aw, af))
                if (aw or af) and tt[T_STATE] not in (S.READY, S.WORKING):
                    res.fail("C03.holder_state", "task %s in state %d holds %s %s at step %d/%s" % (t_id, tt[T_STATE], list(aw), list(af), s, ph), sig=str(tt[T_STATE]))
                for w in aw:
                    holders_w.setdefault(w, []).append(t_id)
                for f in af:
                    holders_f.setdefault(f, []).append(t_id)
                if af:
                    pair = True
            for kind, res_map, holders in (("worker", sn["workers"], holders_w), ("facility", sn["facs"], holders_f)):
                for rid, (state, assigned) in res_map.items():
                    if len(assigned) > 1:
                        res.fail("C03.exclusive", "%s %s assigned to %s at step %d/%s" % (kind, rid, list(assigned), s, ph), sig=kind)
                    hs = holders.get(rid, [])
                    if sorted(hs) != sorted(assigned):
                        res.fail("C03.two_way", "%s %s lists %s but tasks listing it are %s at step %d/%s" % (kind, rid, list(assigned), hs, s, ph), sig=kind)
                    if ph == "recorded":  # "at every step": the state the step ends with (and the logs below)
                        if kind == "worker":
                            absent = sim.worker_absent(sim.widx[rid], s)
                        else:
                            absent = sim.fac_absent(sim.fidx[rid], s)
                        want = bool(assigned) and not absent
                        if (state == S.R_WORKING) != want:
                            res.fail(
                                "C03.working_state",
                                "%s %s state %d, holds %s, absent %s at step %d/%s" % (kind, rid, state, list(assigned), absent, s, ph),
                                sig=kind + ("_should" if want else "_shouldnot"),
                            )
        # release on finish: by the end of the step in which the task is FINISHED (after the run: final state)
        sn = d.get("recorded") or (d.get("updated") if s == len(sim.steps) - 1 else None)
        if sn is not None:
            for t_id, tt in sn["tasks"].items():
                if tt[T_STATE] == S.FINISHED:
                    if tt[T_AW] or tt[T_AF]:
                        res.fail("C03.release", "FINISHED task %s still holds %s %s at step %d" % (t_id, list(tt[T_AW]), list(tt[T_AF]), s))
                    for kind, res_map in (("worker", sn["workers"]), ("facility", sn["facs"])):
                        for rid, (state, assigned) in res_map.items():
                            if t_id in assigned:
                                res.fail("C03.release", "%s %s still lists FINISHED task %s at step %d" % (kind, rid, t_id, s), sig=kind)
        # contention classifier: a worker newly taken at this step while another candidate task existed
        sn = d.get("updated")
        sa = d.get("allocated")
        if sn is not None and sa is not None and s not in sim.absn and not contention:
            for t_id, tt in sa["tasks"].items():
                new = set(tt[T_AW]) - set(sn["tasks"][t_id][T_AW])
                for w in new:
                    wi = sim.widx[w]
                    for tj in range(sim.n):
                        o = sim.tids[tj]
                        if o != t_id and not sim.tasks[tj]["auto"] and sn["tasks"][o][T_STATE] in (S.READY, S.WORKING) and sim.worker_eligible(wi, tj, s):
                            contention = True
    # the same relations on the logs
    N = sim.N
    short = [
        "%s.%s has %d" % (o.ID, name, len(getattr(o, name)))
        for objs, names in (
            (sim.h.tasks, ("allocated_worker_id_record", "allocated_facility_id_record")),
            (list(sim.h.workers) + list(sim.h.facs), ("assigned_task_id_record", "state_record_list")),
        )
        for o in objs
        for name in names
        if len(getattr(o, name)) != N
    ]
    if short:
        res.fail("C03.log_length", "the run has %d steps but %s" % (N, ", ".join(short[:4])), sig=short[0].split(".")[1].split()[0])
        N = 0
    for k in range(N):
        holders = {}  # (kind, resource ID) -> task IDs: worker and facility IDs live in separate name spaces
        for ti, task in enumerate(sim.h.tasks):
            for w in task.allocated_worker_id_record[k] or []:
                holders.setdefault(("worker", w), []).append(task.ID)
            for f in task.allocated_facility_id_record[k] or []:
                holders.setdefault(("facility", f), []).append(task.ID)
        for kind, objs, isabs in (("worker", sim.h.workers, sim.worker_absent), ("facility", sim.h.facs, sim.fac_absent)):
            for i, r in enumerate(objs):
                assigned = list(r.assigned_task_id_record[k] or [])
                if sorted(assigned) != sorted(holders.get((kind, r.ID), [])):
                    res.fail("C03.log_two_way", "%s %s log[%d] assigned %s, task logs say %s" % (kind, r.ID, k, assigned, holders.get((kind, r.ID), [])), sig=kind)
                if len(assigned) > 1:
                    res.fail("C03.log_exclusive", "%s %s log[%d] assigned %s" % (kind, r.ID, k, assigned), sig=kind)
                want = bool(assigned) and not isabs(i, k)
                if (int(r.state_record_list[k]) == S.R_WORKING) != want:
                    res.fail("C03.log_working_state", "%s %s log[%d] state %d assigned %s absent %s" % (kind, r.ID, k, int(r.state_record_list[k]), assigned, isabs(i, k)), sig=kind)
    res.cls("contention", contention)
    res.cls("pair_allocated", pair)
    res.nontrivial = contention or pair
    res.stats["steps"] += N


# ================================================================================================
# C04
# ================================================================================================
def check_c04(sim, res):
    discriminated = False
    for s, d in enumerate(sim.steps):
        before = d.get("updated")
        after = d.get("allocated")
        if before is None or after is None:
            continue
        for ti in range(sim.n):
            t_id = sim.tids[ti]
            t = sim.tasks[ti]
            b, a = before["tasks"][t_id], after["tasks"][t_id]
            aw, af = a[T_AW], a[T_AF]
            new_w = [w for w in aw if w not in b[T_AW]]
            new_f = [f for f in af if f not in b[T_AF]]
            for w in new_w:
                wi = sim.widx[w]
                ws = sim.wskill(wi, ti)
                wspec = sim.spec["workers"][wi]
                if ws is None or not ws > TOL:
                    res.fail("C04.worker_skill", "worker %s (skill %r) allocated to %s at step %d" % (w, ws, t_id, s))
                if ti not in sim.spec["teams"][wspec["team"]]["targets"]:
                    res.fail("C04.worker_team", "worker %s of team %d allocated to %s which the team does not target (step %d)" % (w, wspec["team"], t_id, s))
                if sim.worker_absent(wi, s):
                    res.fail("C04.worker_absent", "worker %s allocated to %s at step %d while absent" % (w, t_id, s), sig="project" if s in sim.absn else "own")
                if t.get("fixw") is not None and wi not in t["fixw"]:
                    res.fail("C04.worker_fixed", "worker %s allocated to %s whose fixed list is %s (step %d)" % (w, t_id, t["fixw"], s))
            if new_w or new_f:
                # did the filter discriminate? an ineligible FREE candidate existed
                for wj, (st, asg) in before["workers"].items():
                    if wj not in aw and not asg and not sim.worker_eligible(sim.widx[wj], ti, s):
                        discriminated = True
            if not t["nf"]:
                if af:
                    res.fail("C04.facility_unneeded", "task %s needs no facility but holds %s at step %d" % (t_id, list(af), s))
            else:
                if len(aw) != len(af):
                    res.fail("C04.pair_count", "task %s holds %d workers and %d facilities at step %d" % (t_id, len(aw), len(af), s))
                for f in new_f:
                    fi = sim.fidx[f]
                    fs = sim.fskill(fi, ti)
                    fspec = sim.spec["facs"][fi]
                    if fs is None or not fs > TOL:
                        res.fail("C04.facility_skill", "facility %s (skill %r) allocated to %s at step %d" % (f, fs, t_id, s))
                    if ti not in sim.spec["wps"][fspec["wp"]]["targets"]:
                        res.fail("C04.facility_workplace", "facility %s of workplace %d allocated to %s which the workplace does not target" % (f, fspec["wp"], t_id))
                    if t.get("fixf") is not None and fi not in t["fixf"]:
                        res.fail("C04.facility_fixed", "facility %s allocated to %s whose fixed list is %s" % (f, t_id, t["fixf"]))
                    pos = list(af).index(f)
                    if pos < len(aw):
                        wi = sim.widx[aw[pos]]
                        if not sim.can_operate(wi, fi):
                            res.fail("C04.pair_operate", "worker %s paired with facility %s on %s cannot operate it" % (aw[pos], f, t_id))
                        if aw[pos] not in new_w:
                            res.fail("C04.pair_alignment", "new facility %s of %s is paired with old worker %s" % (f, t_id, aw[pos]))
            # solo-working: never combined
            for ph_sn in (after, d.get("recorded")):
                if ph_sn is None:
                    continue
                x = ph_sn["tasks"][t_id]
                if len(x[T_AW]) > 1 and any(sim.spec["workers"][sim.widx[w]]["solo"] for w in x[T_AW]):
                    res.fail("C04.solo_worker", "task %s holds %s including a solo-working worker at step %d" % (t_id, list(x[T_AW]), s))
                if len(x[T_AF]) > 1 and any(sim.spec["facs"][sim.fidx[f]]["solo"] for f in x[T_AF]):
                    res.fail("C04.solo_facility", "task %s holds %s including a solo-working facility at step %d" % (t_id, list(x[T_AF]), s))
    res.cls("facilities", bool(sim.spec["facs"]))
    res.nontrivial = discriminated
    res.stats["steps"] += sim.N


# ================================================================================================
# C06
# ================================================================================================
def S_cidx(c_id, spec):
    """spec index of a component ID."""
    for i in range(len(spec["comps"])):
        if S.cid(i) == c_id:
            return i
    raise KeyError(c_id)


def placeable_workplaces(sim, upd, alloc, ti):
    """Workplaces into which the unplaced single-task component of READY facility task ti certainly fitted during
    the allocation pass of this step (flat product): the task lists the workplace, the workplace has skill for the
    task, and the component fits even if everything that was there at the start of the pass *and* everything that
    is there at its end were there at once (a component moves at most once per step, so this bounds every moment)."""
    spec = sim.spec
    t = sim.tasks[ti]
    size = spec["comps"][t["comp"]]["space"]
    sizes = {S.cid(i): c["space"] for i, c in enumerate(spec["comps"])}
    # a (top-level) component all of whose tasks are FINISHED has to leave its workplace in the update of the step
    # (C13): it does not take room that a waiting component could use
    by_comp = {}
    for i, x in enumerate(spec["tasks"]):
        if x.get("comp") is not None:
            by_comp.setdefault(S.cid(x["comp"]), []).append(sim.tids[i])
    done = set(
        c
        for c, ts in by_comp.items()
        if all(upd["tasks"][t_][T_STATE] == S.FINISHED for t_ in ts) and not spec["comps"][int(S_cidx(c, spec))].get("extra_tasks")
    )
    out = []
    for k, wp in enumerate(spec["wps"]):
        if ti not in wp["targets"] or ti in wp.get("notask", ()):
            continue
        w_id = S.wpid(k)
        # who is there is taken from the components' own placement (what C13 ties the workplace's list to)
        there = set(c for c in sizes if upd["comps"][c][1] == w_id or alloc["comps"][c][1] == w_id) - done
        room = wp["cap"] - sum(sizes[c] for c in there)
        if not room >= size - 1e-9:
            continue
        skill = 0.0
        for fi, f in enumerate(spec["facs"]):
            v = f["skills"].get(str(ti))
            if f["wp"] == k and v is not None and v > 1e-10:
                skill += v
        if skill > 1e-9:
            out.append(w_id)
    return out


def acceptable_pairs(sim, alloc, ti, s, candidate_workers, upd=None):
    """(worker, FREE facility) pairs that facility task ti could still accept at the end of allocation of step s.

    Only meaningful for a task that is the single task of its component in a flat product (the component
    is then placed by this task alone). candidate_workers: worker IDs to consider as available.
    upd: the start-of-pass snapshot; when given, a READY task whose component is unplaced is also considered, with
    the facilities of every workplace the component certainly fitted into (placeable_workplaces).
    """
    spec = sim.spec
    t = sim.tasks[ti]
    tt = alloc["tasks"][sim.tids[ti]]
    aw, af = tt[T_AW], tt[T_AF]
    if tt[T_STATE] not in (S.READY, S.WORKING) or t["auto"] or not t["nf"] or t.get("comp") is None:
        return []
    if any(spec["workers"][sim.widx[w]]["solo"] for w in aw) or any(spec["facs"][sim.fidx[f]]["solo"] for f in af):
        return []
    placed = alloc["comps"][S.cid(t["comp"])][1]
    if placed is None:
        if upd is None or tt[T_STATE] != S.READY or aw or af or spec["comps"][t["comp"]].get("extra_tasks"):
            return []
        if upd["comps"][S.cid(t["comp"])][1] is not None or upd["tasks"][sim.tids[ti]][T_STATE] != S.READY:
            return []
        places = placeable_workplaces(sim, upd, alloc, ti)
    else:
        places = [placed]
    out = []
    for fi, f in enumerate(spec["facs"]):
        f_id = sim.fids[fi]
        if S.wpid(f["wp"]) not in places:
            continue
        fst, fasg = alloc["facs"][f_id]
        if fst != S.R_FREE or fasg or not sim.fac_eligible(fi, ti):
            continue
        if f["solo"] and af:
            continue
        for w in candidate_workers:
            wi = sim.widx[w]
            if not sim.worker_eligible(wi, ti, s) or not sim.can_operate(wi, fi):
                continue
            if spec["workers"][wi]["solo"] and aw:
                continue
            out.append((w, f_id))
    return out


def check_c06(sim, res):
    spec = sim.spec
    flat_product = all(c.get("parent") is None for c in spec["comps"])
    comp_tasks = {}
    for i, t in enumerate(sim.tasks):
        if t.get("comp") is not None:
            comp_tasks.setdefault(t["comp"], []).append(i)
    waited = False
    joined = False
    for s, d in enumerate(sim.steps):
        upd = d.get("updated")
        alloc = d.get("allocated")
        if upd is None:
            continue
        working_step = s not in sim.absn
        # (a) dependencies satisfied => not NONE (working steps)
        if working_step:
            for ti in range(sim.n):
                if sim.exempt[ti]:
                    continue
                if upd["tasks"][sim.tids[ti]][T_STATE] == S.NONE and sim.start_deps_ok(upd, ti):
                    res.fail(
                        "C06.ready_late",
                        "task %s is NONE at step %d although its start dependencies are satisfied (preds %s)" % (sim.tids[ti], s, sim.preds[ti]),
                        sig="SS" if any(k == S.SS for _, k in sim.preds[ti]) else "FS",
                    )
        # (d) zero remaining + finish deps at the end of the previous step => FINISHED now
        if s > 0 and sim.steps[s - 1].get("recorded") is not None:
            before = sim.steps[s - 1]["recorded"]
            for ti in range(sim.n):
                b = before["tasks"][sim.tids[ti]]
                if b[T_STATE] == S.WORKING and b[T_REM] < TOL and sim.finish_deps_ok(before, ti):
                    if upd["tasks"][sim.tids[ti]][T_STATE] != S.FINISHED:
                        res.fail("C06.finish_late", "task %s had zero remaining work and finish dependencies at the end of step %d but is not FINISHED at step %d" % (sim.tids[ti], s - 1, s))
        if alloc is None or not working_step:
            continue
        # (b) automatic task without component never waits in READY
        for ti in range(sim.n):
            t = sim.tasks[ti]
            if t["auto"] and t.get("comp") is None and alloc["tasks"][sim.tids[ti]][T_STATE] == S.READY:
                res.fail("C06.auto_waits", "automatic task %s without component is READY after allocation at step %d" % (sim.tids[ti], s))
        # (c) idle eligible worker while a task can still accept
        free_w = [w for w, (st, asg) in alloc["workers"].items() if st == S.R_FREE and not asg]
        for ti in range(sim.n):
            t = sim.tasks[ti]
            t_id = sim.tids[ti]
            tt = alloc["tasks"][t_id]
            if t["auto"] or tt[T_STATE] not in (S.READY, S.WORKING):
                continue
            aw, af = tt[T_AW], tt[T_AF]
            has_solo = any(spec["workers"][sim.widx[w]]["solo"] for w in aw) or any(spec["facs"][sim.fidx[f]]["solo"] for f in af)
            if tt[T_STATE] == S.READY and not t["nf"]:
                waited = True
            new = set(aw) - set(upd["tasks"][t_id][T_AW])
            if new and upd["tasks"][t_id][T_STATE] == S.WORKING:
                joined = True
            if has_solo:
                continue
            if not t["nf"]:
                for w in free_w:
                    wi = sim.widx[w]
                    if not sim.worker_eligible(wi, ti, s):
                        continue
                    if spec["workers"][wi]["solo"] and aw:
                        continue
                    res.fail(
                        "C06.idle_worker",
                        "worker %s is FREE after allocation at step %d although task %s (state %d, holding %s) could accept it" % (w, s, t_id, tt[T_STATE], list(aw)),
                        sig="ready" if tt[T_STATE] == S.READY else "working",
                    )
            elif flat_product and t.get("comp") is not None and len(comp_tasks[t["comp"]]) == 1:
                unplaced = alloc["comps"][S.cid(t["comp"])][1] is None
                for w, f_id in acceptable_pairs(sim, alloc, ti, s, free_w, upd=upd):
                    res.fail(
                        "C06.idle_pair",
                        "worker %s and facility %s are FREE after allocation at step %d although task %s (holding %s/%s%s) could accept the pair"
                        % (w, f_id, s, t_id, list(aw), list(af), ", component unplaced although it fits the facility's workplace" if unplaced else ""),
                        sig="unplaced" if unplaced else "",
                    )
                if unplaced and tt[T_STATE] == S.READY:
                    res.cls("facility_task_waited_unplaced")
    res.cls("ready_task_waited", waited)
    res.cls("worker_joined_working_task", joined)
    res.cls("facilities", bool(spec["facs"]))
    res.nontrivial = waited or joined
    res.stats["steps"] += sim.N


# ================================================================================================
# C10 part A (inside absence steps)
# ================================================================================================
def check_c10a(sim, res):
    spec = sim.spec
    fm = sim.float_mode
    p = sim.p
    inside = [k for k in sorted(sim.absn) if sim.t0 <= k < sim.N]
    working_inside = False
    for k in inside:
        upd = sim.steps[k]["updated"]
        alloc = sim.steps[k]["allocated"]
        for ti, task in enumerate(sim.h.tasks):
            t = sim.tasks[ti]
            rem = task.remaining_work_amount_record_list
            prev = rem[k - 1] if k > sim.t0 else t["work"] * (1.0 - t["prog"])
            live = alloc["tasks"][task.ID][T_STATE]
            if live == S.WORKING:
                working_inside = True
            finished_now = upd["tasks"][task.ID][T_STATE] == S.FINISHED
            if not t["auto"]:
                if rem[k] != prev and not finished_now:
                    res.fail("C10.progress_in_absence", "non-automatic task %s: remaining %r -> %r at absence step %d" % (task.ID, prev, rem[k], k))
            elif not finished_now:
                exp = t.get("rate", 1.0) if (sim.opts.get("auto_abs") and live == S.WORKING) else 0.0
                if not _feq(prev - rem[k], exp, fm):
                    res.fail(
                        "C10.auto_in_absence",
                        "automatic task %s (live state %d, flag %s): remaining %r -> %r at absence step %d" % (task.ID, live, sim.opts.get("auto_abs"), prev, rem[k], k),
                        sig="flag" if sim.opts.get("auto_abs") else "noflag",
                    )
            if k > sim.t0:
                for rec, what in ((task.allocated_worker_id_record, "worker"), (task.allocated_facility_id_record, "facility")):
                    new = set(rec[k] or []) - set(rec[k - 1] or [])
                    if new:
                        res.fail("C10.allocated_in_absence", "task %s newly holds %s %s at absence step %d" % (task.ID, what, sorted(new), k), sig=what)
            elif task.allocated_worker_id_record[k] or task.allocated_facility_id_record[k]:
                res.fail("C10.allocated_in_absence", "task %s holds resources at absence step %d, the first of the run" % (task.ID, k), sig="step0")
        for kind, objs in (("worker", sim.h.workers), ("facility", sim.h.facs)):
            for r in objs:
                if int(r.state_record_list[k]) != S.R_ABSENCE:
                    res.fail("C10.not_logged_absence", "%s %s logged %d at project-wide absence step %d" % (kind, r.ID, int(r.state_record_list[k]), k), sig=kind)
                if r.cost_list[k] != 0.0:
                    res.fail("C10.charged_in_absence", "%s %s charged %r at absence step %d" % (kind, r.ID, r.cost_list[k], k), sig=kind)
                if k > sim.t0:
                    new = set(r.assigned_task_id_record[k] or []) - set(r.assigned_task_id_record[k - 1] or [])
                    if new:
                        res.fail("C10.allocated_in_absence", "%s %s newly assigned %s at absence step %d" % (kind, r.ID, sorted(new), k), sig=kind + "_side")
        for label, lst in [("project", p.cost_list), ("organization", p.organization.cost_list)] + [("team " + tm.ID, tm.cost_list) for tm in sim.h.teams] + [("workplace " + wp.ID, wp.cost_list) for wp in sim.h.wps]:
            if lst[k] != 0.0:
                res.fail("C10.charged_in_absence", "%s cost %r at absence step %d" % (label, lst[k], k), sig=label.split()[0])
    # individually absent resources on working steps: no progress (C02 reference), no cost
    indiv = False
    for k in range(sim.t0, sim.N):
        if k in sim.absn:
            continue
        for kind, objs, specs in (("worker", sim.h.workers, spec["workers"]), ("facility", sim.h.facs, spec["facs"])):
            for i, r in enumerate(objs):
                if k * sim.u in specs[i]["abs"]:
                    if r.cost_list[k] != 0.0:
                        res.fail("C10.absent_resource_charged", "%s %s charged %r while individually absent at step %d" % (kind, r.ID, r.cost_list[k], k), sig=kind)
                    if int(r.state_record_list[k]) == S.R_WORKING:
                        res.fail("C10.absent_resource_working", "%s %s logged WORKING while individually absent at step %d" % (kind, r.ID, k), sig=kind)
                    if r.assigned_task_id_record[k]:
                        indiv = True
        alloc = sim.steps[k]["allocated"]
        for ti, task in enumerate(sim.h.tasks):
            tt = alloc["tasks"][task.ID]
            if tt[T_STATE] != S.WORKING or sim.tasks[ti]["auto"]:
                continue
            exp, nc, absent = contribution(sim, k, ti)
            if not absent:
                continue
            rem = task.remaining_work_amount_record_list
            prev = rem[k - 1] if k > sim.t0 else sim.tasks[ti]["work"] * (1.0 - sim.tasks[ti]["prog"])
            if not _feq(prev - rem[k], exp, fm) and not _feq(rem[k], prev - exp, fm):
                res.fail("C10.absent_resource_progress", "task %s step %d: remaining %r -> %r but the present resources contribute %r" % (task.ID, k, prev, rem[k], exp))
    res.cls("absence_inside_run", bool(inside))
    res.cls("task_working_during_absence", working_inside)
    res.cls("individually_absent_holder", indiv)
    res.cls("auto_flag", bool(sim.opts.get("auto_abs")))
    return working_inside, indiv


# ================================================================================================
# C14
# ================================================================================================
def check_c14(sim, res):
    spec = sim.spec
    comp_tasks = {i: [] for i in range(len(spec["comps"]))}
    for i, t in enumerate(sim.tasks):
        if t.get("comp") is not None:
            comp_tasks[t["comp"]].append(i)
    for i, c in enumerate(spec["comps"]):
        comp_tasks[i].extend(c.get("extra_tasks", ()))
    mixed = False

    def rel(cstate, tstates, where, cid_, sigp=""):
        nonlocal mixed
        if len(set(tstates)) > 1:
            mixed = True
        allfin = all(x == S.FINISHED for x in tstates)
        if (cstate == S.FINISHED) != allfin:
            res.fail("C14.finished_iff", "component %s state %d, task states %s %s" % (cid_, cstate, tstates, where), sig=sigp + ("should" if allfin else "shouldnot"))
        if any(x == S.WORKING for x in tstates) and cstate != S.WORKING:
            res.fail("C14.working", "component %s state %d although a task is WORKING %s %s" % (cid_, cstate, tstates, where), sig=sigp)
        if any(x in (S.READY, S.WORKING) for x in tstates) and cstate == S.NONE:
            res.fail("C14.none_with_active_task", "component %s is NONE, task states %s %s" % (cid_, tstates, where), sig=sigp)

    for ci, comp in enumerate(sim.h.comps):
        c_id = comp.ID
        # live
        prev = None
        for (s, ph, sn) in sim.flat_snaps():
            if ph == "performed":
                continue
            cstate = sn["comps"][c_id][0]
            tstates = [sn["tasks"][sim.tids[ti]][T_STATE] for ti in comp_tasks[ci]]
            rel(cstate, tstates, "at step %d/%s" % (s, ph), c_id, "live_")
            if prev is not None:
                if prev != S.NONE and cstate == S.NONE:
                    res.fail("C14.back_to_none", "component %s returned to NONE at step %d/%s" % (c_id, s, ph))
                if prev == S.FINISHED and cstate != S.FINISHED:
                    res.fail("C14.left_finished", "component %s left FINISHED at step %d/%s" % (c_id, s, ph))
            prev = cstate
        # logs
        log = [int(x) for x in comp.state_record_list]
        if len(log) != sim.N:
            res.fail("C14.log_length", "component %s state log has %d entries, %d steps" % (c_id, len(log), sim.N))
            continue
        for k in range(sim.N):
            tstates = [int(sim.h.tasks[ti].state_record_list[k]) for ti in comp_tasks[ci]]
            rel(log[k], tstates, "in the logs at index %d" % k, c_id, "log_")
            if k > 0 and k != sim.t0:  # (an appended run starts again from the initial states at index t0)
                if log[k - 1] != S.NONE and log[k] == S.NONE:
                    res.fail("C14.back_to_none", "component %s log returns to NONE at index %d" % (c_id, k), sig="log")
                if log[k - 1] == S.FINISHED and log[k] != S.FINISHED:
                    res.fail("C14.left_finished", "component %s log leaves FINISHED at index %d" % (c_id, k), sig="log")
    res.cls("component_without_task", any(not v for v in comp_tasks.values()))
    res.cls("nested", any(c.get("parent") is not None for c in spec["comps"]))
    res.nontrivial = mixed
    res.stats["steps"] += sim.N


def check_c14_logs(project, res, tag):
    """C14 relation on the logs of an arbitrary project (used for resumed and JSON-reloaded runs)."""
    n = len(project.cost_list)
    for comp in project.product.component_list:
        log = [int(x) for x in comp.state_record_list]
        if len(log) != n:
            res.fail("C14.log_length", "%s: component %s state log has %d entries, %d steps" % (tag, comp.ID, len(log), n), sig=tag)
            continue
        for k in range(n):
            ts = [int(t.state_record_list[k]) for t in comp.targeted_task_list]
            allfin = all(x == S.FINISHED for x in ts)
            if (log[k] == S.FINISHED) != allfin:
                res.fail("C14.finished_iff", "%s: component %s logged %d at index %d, task states %s" % (tag, comp.ID, log[k], k, ts), sig=tag)
            if any(x == S.WORKING for x in ts) and log[k] != S.WORKING:
                res.fail("C14.working", "%s: component %s logged %d at index %d although a task is WORKING %s" % (tag, comp.ID, log[k], k, ts), sig=tag)
            if any(x in (S.READY, S.WORKING) for x in ts) and log[k] == S.NONE:
                res.fail("C14.none_with_active_task", "%s: component %s logged NONE at index %d, task states %s" % (tag, comp.ID, k, ts), sig=tag)
            if k > 0 and log[k - 1] != S.NONE and log[k] == S.NONE:
                res.fail("C14.back_to_none", "%s: component %s log returns to NONE at index %d" % (tag, comp.ID, k), sig=tag)
            if k > 0 and log[k - 1] == S.FINISHED and log[k] != S.FINISHED:
                res.fail("C14.left_finished", "%s: component %s log leaves FINISHED at index %d" % (tag, comp.ID, k), sig=tag)
