"""C04 - only eligible resources are ever allocated to a task."""
from .. import gen
from .. import simcheck
from ..core import Result

PID = "C04"
LEVEL = "exploration"
RULE = (
    "One spec in three has lived before (warm start): another model edited in place into this one or swapped into the old project object, or the model's own run cut short by max_time and then continued with one of the unequal initialize-flag combinations (state carried over and logs restarted, or state reset and logs appended), or a first run that does not initialize the logs. A 'pinned' profile gives facility tasks both fixed-ID lists at once. "
    'One cold-started spec in six is simulated with unit_time 2 or 3 (absence lists in time units, steps and logs indexed by step). '
    'Hypothesis-generated models with skills incl. 0 and missing keys, partial team/workplace targeting, solo flags on workers and facilities, fixed-ID lists (also lists naming nobody), absences. Oracle on every newly allocated worker/facility (allocated snapshot minus updated snapshot of the same step) against the static spec: positive skill, targeting team/workplace, not absent, inside fixed lists, pairs for facility tasks (equal counts, operable facility, new facility paired with new worker), no facility on tasks that need none, solo resources never combined. Non-trivial = some step where a task got a resource while an ineligible free worker existed (the filter discriminated); distinct by spec hash.'
)
ASSUMPTIONS = [
    "skill standard deviations are 0 (deterministic skills); unit_time=1; task_performed_mode='multi-workers'",
    "generated models respect the implicit preconditions of DESIGN.md section 4 (unique IDs/names, acyclic graph, forest products)",
]
TECHNIQUE = 'property-based testing (Hypothesis): generated models, every allocation decision checked against a static eligibility predicate'
LEVEL_TEXT = 'Generated-input search: every allocation decision of every generated run is checked against an independent eligibility predicate on the spec; not a proof.'
LEVEL_NOTE = 'Trusts the step observer and the builder.'

CFG = gen.Cfg(unit_time=6, warm_modes=["morph", "graft", "carry", "append", "nolog", "cutrerun"], warm=3, onesided=4, facilities=True, max_time=[40, 80], p_auto=12, abs_p=2, abs_size=6, abs_max=12)


# "pinned": facility tasks that fix one facility (and often one or two workers) - both fixed-ID lists at once
CFG_PIN = CFG.copy(p_fix=2, max_wps=2, max_facs_per_wp=2, max_comps=3, min_tasks=3, onesided=0)


def strategy(tier):
    from hypothesis import strategies as st

    cfg = CFG if tier == "quick" else CFG.copy(max_tasks=12, max_workers=8)
    pin = CFG_PIN if tier == "quick" else CFG_PIN.copy(max_tasks=12, max_workers=6)
    return st.one_of(gen.model_spec(cfg), gen.model_spec(cfg), gen.pinned_spec(pin), gen.dense_pairs_spec(pin))


def budget(tier):
    if tier == "quick":
        return {"cases": 3000, "shards": 6}
    return {"cases": 150000, "shards": 16}


def check(spec):
    res = Result()
    sim = simcheck.Sim(spec)
    simcheck.check_c04(sim, res)
    return res
