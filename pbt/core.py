"""Small shared types: Violation, Result, HarnessError."""
import collections


class HarnessError(Exception):
    """A defect of the harness itself (exit 2, never reported as a violation)."""


class Violation(Exception):
    """A property clause failed on a case."""

    def __init__(self, clause, detail="", sig=""):
        Exception.__init__(self, "%s: %s" % (clause, detail))
        self.clause = clause
        self.detail = detail
        self.sig = sig

    @property
    def bucket(self):
        return self.clause + ("|" + self.sig if self.sig else "")


class Result(object):
    """Outcome of checking one generated case."""

    def __init__(self):
        self.nontrivial = False
        self.classes = set()
        self.violations = []
        self.stats = collections.Counter()
        self.key = None  # optional distinctness key (defaults to hash of the case)
        self.excluded = collections.Counter()  # excluded_by_construction counters

    def fail(self, clause, detail="", sig=""):
        self.violations.append(Violation(clause, detail, sig))

    def cls(self, label, cond=True):
        if cond:
            self.classes.add(label)

    def merge(self, other):
        self.nontrivial = self.nontrivial or other.nontrivial
        self.classes |= other.classes
        self.violations.extend(other.violations)
        self.stats.update(other.stats)
        self.excluded.update(other.excluded)
        return self
